import TexSoupProofs.Complete.RenameTree
import TexSoupProofs.Complete.RenameEdit
import TexSoupProofs.Complete.RenameSep
import TexSoupProofs.Complete.SetStrTree
import TexSoupProofs.Complete.SetStrSep
import TexSoupProofs.Complete.SetArgs
import TexSoupProofs.Properties.C16Grammar
/-!
# C14 for documents of the grammar – re-parsing the text of a renamed tree shows the same change

"Renaming a command or environment … re-parsing the new text yields a tree that shows the same
change."  Proved here for every well-formed document `d` of the grammar (`Gram.WFD`), in both
tolerance modes, for renaming commands *and* environments:

 * `Gram.rename r` (`TexSoupModel/GrammarEdit.lean`) replaces the text of the name token of the
   selected commands and of the two name tokens (`\begin{..}`, `\end{..}`) of the selected
   environments; `renameCmds p new` / `renameEnvs p new` are its special cases with a predicate
   on the name token. `\item`s, verbatim-like environments and raw verbatim bodies are never
   touched.
 * `rename_keeps_wf`: the renamed document is well-formed under the side conditions `Ren.OK`
   (no frame condition can tell the names apart: `sameRole` for commands, `envRole` + skip list
   for environments; the look-ahead windows contain a name only after a backslash, where it is
   compared with `end` / `item` only).
 * `tree_of_renamed`: its tree is `renameTreeL` of the tree of `d` – exactly the selected
   `.cmd` / `.nenv` nodes carry the new name, all arguments, contents, nesting and positions are
   those of `d` (selection by what the tree shows of a node: name and position, `Ren.ofQ`).
 * `rename_reparse`: parsing the serialised text of the renamed tree succeeds, gives a tree of
   the same shape (`shapeL`: equal up to positions, which are now offsets in the new text) and
   the same serialisation.
 * `rename_command_reparse` / `rename_environment_reparse`: the same, stated with the edit model
   of C05/C14/C15 – the renamed tree is `applyEdit (treeD d) (.rename p new)` for the path `p` of
   the node, provided no other node has the same name at the same position
   (`selCountL … = 1`; `Complete/RenameEdit.lean`).
 * `rename_command_reparse_of_source` / `…_environment_…`: from the tokenizer output of the
   source instead of the renamed token list, see below.

## Side conditions (all decidable)

Commands, `sameRole old new`: neither name is `item`; both or neither are `end`; both or neither
are `begin`; `SIGNATURES.get` gives the same signature; both or neither are special commands
(`\newcommand` …: argument mode). Plus `strip new = new`.
Environments, `envRole old new`: `strip new = new`; both or neither are math environment names;
and neither `old` nor `new` is in the skip list in force (`Tables.skipEnvNames ++ skip`).
Document: `envNamesPlainS d`, `cmdNamesPlainS d` – names are written without surrounding blanks
(the tree shows `strip name`; true of every tokenizer output, `cmdNamesPlainS_of_separated`).
Each is needed: `exItem` / `exSig` below rename to `item` resp. to a fixed-signature name and
the re-parsed tree differs.

`Separated none (toksD (squeezeD (renameD r d)))` – the squeezed token list of the renamed
document is a tokenizer output – is a hypothesis of `rename_reparse`, `rename_command_reparse`,
`rename_environment_reparse`. The `…_of_source` theorems derive it (`Complete/RenameSep.lean`,
`TokLemmas/NameVar.lean`) from: the token list of `d` is a tokenizer output
(`Separated none (toksD d)`) in which no command name is a bare sizing prefix
(`C16G.noBareSizing`, the side condition of C16); for commands `goodName old`, `goodName new`
(a letter, then letters or `*`) and `new ∉ Tables.sizePrefix`; for environments
`letterStart old` and `goodText new` (no ignored first character, no character at which a text
token ends – backslash, braces, brackets, `$`, `%` –, no leading blank run that would be split
off). Under these conditions `strip new = new` and `cmdNamesPlainS d` need not be assumed.
-/
namespace TexSoup.C14G
open TexSoup TexSoup.Gram

/-- the node(s) with this name at this position -/
def qAt (old : Str) (pos : Int) : Str → Int → Bool := fun s p => s == old && p == pos
/-- nothing -/
def qNone : Str → Int → Bool := fun _ _ => false

/-- The frame conditions cannot tell the old names from the new ones. -/
theorem rename_keeps_wf (r : Ren) (skip : List Str) (d : Doc) (hwf : WFD skip d = true)
    (hr : r.OK skip) : WFD skip (renameD r d) = true := WFD_rename skip d hwf hr

/-- … in the form asked for: every command whose name token satisfies `p` has the role of
`new`. -/
theorem renameCmds_keeps_wf (p : Tok → Bool) (new : Str) (skip : List Str) (d : Doc)
    (hwf : WFD skip d = true) (hp : ∀ n : Tok, p n = true → sameRole n.text new = true) :
    WFD skip (renameCmdsD p new d) = true :=
  WFD_rename skip d hwf ⟨fun _ n h => hp n h, fun _ _ h => (by cases h)⟩

theorem renameEnvs_keeps_wf (p : Tok → Bool) (new : Str) (skip : List Str) (d : Doc)
    (hwf : WFD skip d = true) (hnew : memStr new skip = false)
    (hp : ∀ n : Tok, p n = true → envRole n.text new = true) :
    WFD skip (renameEnvsD p new d) = true :=
  WFD_rename skip d hwf ⟨fun _ _ h => (by cases h), fun _ n h => ⟨hp n h, hnew⟩⟩

/-- **The tree of the renamed document is the tree of the document with exactly the selected
nodes renamed.** -/
theorem tree_of_renamed {qc : Str → Int → Bool} {newc : Str} {qe : Str → Int → Bool} {newe : Str}
    {skip : List Str} (d : Doc) (hwf : WFD skip d = true) (hcn : cmdNamesPlainS d = true)
    (hen : envNamesPlainS d = true) (hq : QOK qc newc qe newe skip) :
    treeD (renameD (Ren.ofQ qc newc qe newe) d) = renameTreeL qc newc qe newe (treeD d) :=
  treeD_rename d hwf hcn hen hq

/-- **Re-parsing the text of the renamed tree shows the same change** (both tolerance modes). -/
theorem rename_reparse (tol : Bool) (skip : List Str) (d : Doc)
    (qc : Str → Int → Bool) (newc : Str) (qe : Str → Int → Bool) (newe : Str)
    (hwf : WFD (Tables.skipEnvNames ++ skip) d = true) (hen : envNamesPlainS d = true)
    (hcn : cmdNamesPlainS d = true) (hq : QOK qc newc qe newe (Tables.skipEnvNames ++ skip))
    (hsq : Separated none (toksD (squeezeD (renameD (Ren.ofQ qc newc qe newe) d)))) :
    ∃ t2, parse tol skip (serL (renameTreeL qc newc qe newe (treeD d))) = .ok t2 ∧
      shapeL t2 = shapeL (renameTreeL qc newc qe newe (treeD d)) ∧
      serL t2 = serL (renameTreeL qc newc qe newe (treeD d)) := by
  have hwf' := WFD_rename _ d hwf hq.ren
  have hen' : envNamesPlainS (renameD (Ren.ofQ qc newc qe newe) d) = true :=
    envNamesPlainS_rename hq.ren d hen
  have h := C16G.reparse_fixed_point tol skip _ hwf' hen' hsq
  rw [treeD_rename d hwf hcn hen hq] at h
  exact h

/-! ### with the edit model -/

theorem qok_cmd {old new : Str} {pos : Int} {skip : List Str} (hrole : sameRole old new = true)
    (hnew : strip new = new) : QOK (qAt old pos) new qNone [] skip :=
  ⟨fun s p h => by
      simp only [qAt, Bool.and_eq_true, beq_iff_eq] at h
      rw [h.1]; exact ⟨hrole, hnew⟩,
   fun _ _ h => by cases h⟩

theorem qok_env {old new : Str} {pos : Int} {skip : List Str} (hrole : envRole old new = true)
    (hold : memStr old skip = false) (hnew : memStr new skip = false) :
    QOK qNone [] (qAt old pos) new skip :=
  ⟨fun _ _ h => (by cases h),
   fun s p h => by
      simp only [qAt, Bool.and_eq_true, beq_iff_eq] at h
      rw [h.1]; exact ⟨hrole, hnew, hold⟩⟩

/-- **`node.name = new` on a command, then `str`, then parse.** `p` is the path of a command
node `\old` of the tree of `d`; no other command has this name at this position. Then the text
of the edited tree (`applyEdit … (.rename p new)`, the edit of C14 `rename_splice_cmd`) parses
to a tree of the same shape and the same text. -/
theorem rename_command_reparse (tol : Bool) (skip : List Str) (d : Doc) (p : Path)
    (old new : Str) (a b : List Expr) (pos : Int)
    (hwf : WFD (Tables.skipEnvNames ++ skip) d = true) (hen : envNamesPlainS d = true)
    (hcn : cmdNamesPlainS d = true) (hp : p ≠ [])
    (hget : getAtRoot (treeD d) p = some (.cmd old a b pos))
    (huniq : selCountL (qAt old pos) qNone (treeD d) = 1)
    (hrole : sameRole old new = true) (hnew : strip new = new)
    (hsq : Separated none (toksD (squeezeD (renameD (Ren.ofQ (qAt old pos) new qNone []) d)))) :
    ∃ t2, parse tol skip (serL (applyEdit (treeD d) (.rename p new))) = .ok t2 ∧
      shapeL t2 = shapeL (applyEdit (treeD d) (.rename p new)) ∧
      serL t2 = serL (applyEdit (treeD d) (.rename p new)) := by
  rw [applyEdit_rename_eq (qAt old pos) new qNone [] (treeD d) p _ hp hget
    (.inl ⟨old, a, b, pos, rfl, by simp [qAt], rfl⟩) huniq rfl]
  exact rename_reparse tol skip d _ _ _ _ hwf hen hcn (qok_cmd hrole hnew) hsq

/-- **`node.name = new` on an environment** (both `\begin{..}` and `\end{..}` change). -/
theorem rename_environment_reparse (tol : Bool) (skip : List Str) (d : Doc) (p : Path)
    (old new : Str) (a b : List Expr) (pos : Int)
    (hwf : WFD (Tables.skipEnvNames ++ skip) d = true) (hen : envNamesPlainS d = true)
    (hcn : cmdNamesPlainS d = true) (hp : p ≠ [])
    (hget : getAtRoot (treeD d) p = some (.nenv old a b pos)) (hpos : pos ≠ -1)
    (huniq : selCountL qNone (qAt old pos) (treeD d) = 1)
    (hrole : envRole old new = true)
    (hold : memStr old (Tables.skipEnvNames ++ skip) = false)
    (hnews : memStr new (Tables.skipEnvNames ++ skip) = false)
    (hsq : Separated none (toksD (squeezeD (renameD (Ren.ofQ qNone [] (qAt old pos) new) d)))) :
    ∃ t2, parse tol skip (serL (applyEdit (treeD d) (.rename p new))) = .ok t2 ∧
      shapeL t2 = shapeL (applyEdit (treeD d) (.rename p new)) ∧
      serL t2 = serL (applyEdit (treeD d) (.rename p new)) := by
  rw [applyEdit_rename_eq qNone [] (qAt old pos) new (treeD d) p _ hp hget
    (.inr ⟨old, a, b, pos, rfl, by simp [qAt], rfl⟩) huniq
    (by simp only [qAt, Bool.and_eq_false_iff]; right; simpa using fun h => hpos h.symm)]
  exact rename_reparse tol skip d _ _ _ _ hwf hen hcn (qok_env hrole hold hnews) hsq

/-! ### from the source -/

/-- the text starts with a letter -/
def letterStart : Str → Bool
  | c :: _ => catOf c == .Letter
  | [] => false

theorem letterStart_spec {s : Str} (h : letterStart s = true) : ∃ c b, s = c :: b ∧ catOf c = .Letter := by
  cases s with
  | nil => simp [letterStart] at h
  | cons c b => exact ⟨c, b, rfl, by simpa [letterStart] using h⟩

theorem strip_of_goodName {s : Str} (h : goodName s = true) : strip s = s := by
  obtain ⟨_, _, _, _, _, hall⟩ := goodName_spec h
  apply strip_of_no_space
  intro c hc
  have := hall c hc
  simp only [nameCh, isLetterCh, Bool.or_eq_true, beq_iff_eq] at this
  rcases this with h1 | h1
  · exact not_space_of_letter h1
  · rw [h1]; decide

/-- **From the source, general form.** The document is well-formed and its tokens are a
tokenizer output without a bare sizing prefix; the selected and the new names are command names
resp. texts (`Ren.SepOK`) with the same roles (`QOK`). Then the text of the renamed tree parses
to a tree of the same shape and text. -/
theorem rename_reparse_of_source (tol : Bool) (skip : List Str) (d : Doc)
    (qc : Str → Int → Bool) (newc : Str) (qe : Str → Int → Bool) (newe : Str)
    (hwf : WFD (Tables.skipEnvNames ++ skip) d = true) (hen : envNamesPlainS d = true)
    (hq : QOK qc newc qe newe (Tables.skipEnvNames ++ skip)) (hs : (Ren.ofQ qc newc qe newe).SepOK)
    (hsep : Separated none (toksD d)) (hsz : C16G.noBareSizing (toksD d) = true) :
    ∃ t2, parse tol skip (serL (renameTreeL qc newc qe newe (treeD d))) = .ok t2 ∧
      shapeL t2 = shapeL (renameTreeL qc newc qe newe (treeD d)) ∧
      serL t2 = serL (renameTreeL qc newc qe newe (treeD d)) :=
  rename_reparse tol skip d qc newc qe newe hwf hen (cmdNamesPlainS_of_separated hwf hsep hen) hq
    (separated_squeeze_rename hs hq.ren hwf hsep (C16G.noBareSizing_spec hsz))

theorem sepOK_cmd {old new : Str} {pos : Int} (hold : goodName old = true) (hnew : goodName new = true)
    (hsz : new ∉ Tables.sizePrefix) : (Ren.ofQ (qAt old pos) new qNone []).SepOK :=
  ⟨fun esc n h => by
      simp only [Ren.ofQ, qAt, Bool.and_eq_true, beq_iff_eq] at h
      rw [h.1]; exact ⟨hold, hnew, hsz⟩,
   fun _ _ h => (by cases h)⟩

theorem sepOK_env {old new : Str} {pos : Int} (hold : letterStart old = true) (hnew : goodText new = true) :
    (Ren.ofQ qNone [] (qAt old pos) new).SepOK :=
  ⟨fun _ _ h => (by cases h),
   fun esc nt h => by
      simp only [Ren.ofQ, qAt, Bool.and_eq_true, beq_iff_eq] at h
      rw [h.1]; exact ⟨letterStart_spec hold, hnew⟩⟩

/-- **C14, re-parse clause, commands, from the source.** `d` is a well-formed document whose
tokens are a tokenizer output (no bare sizing prefix, environment names written plainly); `p` is
the path of a command `\old` in its tree, the only command of that name at that position;
`old` and `new` are command names (a letter, then letters or `*`) with the same role, `new` is no
sizing prefix. Then `str` of the tree after `node.name = new` parses, in both tolerance modes,
to a tree of the same shape and the same text. -/
theorem rename_command_reparse_of_source (tol : Bool) (skip : List Str) (d : Doc) (p : Path)
    (old new : Str) (a b : List Expr) (pos : Int)
    (hwf : WFD (Tables.skipEnvNames ++ skip) d = true) (hen : envNamesPlainS d = true)
    (hsep : Separated none (toksD d)) (hsz : C16G.noBareSizing (toksD d) = true) (hp : p ≠ [])
    (hget : getAtRoot (treeD d) p = some (.cmd old a b pos))
    (huniq : selCountL (qAt old pos) qNone (treeD d) = 1)
    (hrole : sameRole old new = true) (hgold : goodName old = true) (hgnew : goodName new = true)
    (hnsz : new ∉ Tables.sizePrefix) :
    ∃ t2, parse tol skip (serL (applyEdit (treeD d) (.rename p new))) = .ok t2 ∧
      shapeL t2 = shapeL (applyEdit (treeD d) (.rename p new)) ∧
      serL t2 = serL (applyEdit (treeD d) (.rename p new)) :=
  rename_command_reparse tol skip d p old new a b pos hwf hen (cmdNamesPlainS_of_separated hwf hsep hen)
    hp hget huniq hrole (strip_of_goodName hgnew)
    (separated_squeeze_rename (sepOK_cmd hgold hgnew hnsz) (qok_cmd hrole (strip_of_goodName hgnew)).ren
      hwf hsep (C16G.noBareSizing_spec hsz))

/-- **C14, re-parse clause, environments, from the source**: `old` starts with a letter, `new` can
stand as one text token (`goodText`, e.g. letters and digits), same role, neither is in the skip
list. -/
theorem rename_environment_reparse_of_source (tol : Bool) (skip : List Str) (d : Doc) (p : Path)
    (old new : Str) (a b : List Expr) (pos : Int)
    (hwf : WFD (Tables.skipEnvNames ++ skip) d = true) (hen : envNamesPlainS d = true)
    (hsep : Separated none (toksD d)) (hsz : C16G.noBareSizing (toksD d) = true) (hp : p ≠ [])
    (hget : getAtRoot (treeD d) p = some (.nenv old a b pos)) (hpos : pos ≠ -1)
    (huniq : selCountL qNone (qAt old pos) (treeD d) = 1)
    (hrole : envRole old new = true)
    (hold : memStr old (Tables.skipEnvNames ++ skip) = false)
    (hnews : memStr new (Tables.skipEnvNames ++ skip) = false)
    (hlold : letterStart old = true) (hgnew : goodText new = true) :
    ∃ t2, parse tol skip (serL (applyEdit (treeD d) (.rename p new))) = .ok t2 ∧
      shapeL t2 = shapeL (applyEdit (treeD d) (.rename p new)) ∧
      serL t2 = serL (applyEdit (treeD d) (.rename p new)) :=
  rename_environment_reparse tol skip d p old new a b pos hwf hen
    (cmdNamesPlainS_of_separated hwf hsep hen) hp hget hpos huniq hrole hold hnews
    (separated_squeeze_rename (sepOK_env hlold hgnew) (qok_env hrole hold hnews).ren
      hwf hsep (C16G.noBareSizing_spec hsz))

/-! ## `node.string = s`

`Gram.setStr r` replaces the contents of the single argument group of the selected commands,
resp. the one-leaf body of the selected argument-less environments, by ONE text token `s`.
No frame condition of the grammar looks at it (`WFD_setStr`: only "it is a `Text` token" is
used), its tree is `mapSelL (strSel …) (strTop s np)` of the tree of `d` (`treeD_setStr`), which
is the edit `.setString p s` of the edit model when the selection hits exactly the node at `p`
(`Complete/MapSel.lean`). The implementation stores the new string without a position (`-1`),
the re-parsed text has a real offset there: the conclusion compares trees without any position
(`bareL`; `shapeL` keeps `-1`). Side condition on `s` for the text to be a tokenizer output:
`goodText s` (first character not ignored; no character at which a text token ends: backslash,
braces, brackets, `$`, `%`; no leading blank run that the tokenizer would split off).
`s` may be blank-free or not, may contain letters directly after the opening brace: the token in
front of it is the opener `{`/`[` resp. the `}` of `\begin{name}`, never a name. -/

theorem bare_setBody_text (x : Expr) (s : Str) (a b : Int) :
    bare (x.setBody [.text s a]) = bare (x.setBody [.text s b]) := by
  cases x <;> simp [Expr.setBody, bare]

theorem bare_strTop (s : Str) (a b : Int) (e : Expr) : bare (strTop s a e) = bare (strTop s b e) := by
  cases e with
  | cmd n as bd p =>
    simp only [strTop, bare]
    congr 1
    induction as with
    | nil => rfl
    | cons x xs ih => simp [bare_setBody_text x s a b, ih]
  | nenv n as bd p => simp [strTop, bare]
  | _ => rfl

/-- **General form**: selection `(qc, qe)` on (name, position); the tree with the new leaves at
position `np`. -/
theorem set_string_reparse_general (tol : Bool) (skip : List Str) (d : Doc)
    (qc qe : Str → Int → Bool) (s : Str) (np : Nat)
    (hwf : WFD (Tables.skipEnvNames ++ skip) d = true) (hen : envNamesPlainS d = true)
    (hcn : cmdNamesPlainS d = true) (hq : SQ qc qe (Tables.skipEnvNames ++ skip))
    (hsq : Separated none (toksD (squeezeD (setStrD (SetS.ofQ qc qe s np) d)))) :
    ∃ t2, parse tol skip (serL (mapSelL (strSel qc qe) (strTop s np) (treeD d))) = .ok t2 ∧
      shapeL t2 = shapeL (mapSelL (strSel qc qe) (strTop s np) (treeD d)) ∧
      serL t2 = serL (mapSelL (strSel qc qe) (strTop s np) (treeD d)) := by
  have hwf' := WFD_setStr (r := SetS.ofQ qc qe s np) rfl _ d hwf
  have hen' : envNamesPlainS (setStrD (SetS.ofQ qc qe s np) d) = true := envNamesPlainS_setStr _ d hen
  have h := C16G.reparse_fixed_point tol skip _ hwf' hen' hsq
  rw [treeD_setStr d hwf hcn hen hq] at h
  exact h

/-- … for the tree of the edit model (new leaf at `-1`), up to positions. -/
theorem set_string_reparse_edit (tol : Bool) (skip : List Str) (d : Doc) (p : Path) (t : Expr)
    (qc qe : Str → Int → Bool) (s : Str)
    (hwf : WFD (Tables.skipEnvNames ++ skip) d = true) (hen : envNamesPlainS d = true)
    (hcn : cmdNamesPlainS d = true) (hq : SQ qc qe (Tables.skipEnvNames ++ skip))
    (hp : p ≠ []) (hget : getAtRoot (treeD d) p = some t) (hsel : strSel qc qe t = true)
    (hset : setStringE s t = some (strTop s (-1) t))
    (huniq : cntSelL (strSel qc qe) (treeD d) = 1) (hroot : qe [] (-1) = false)
    (hsq : Separated none (toksD (squeezeD (setStrD (SetS.ofQ qc qe s 0) d)))) :
    ∃ t2, parse tol skip (serL (applyEdit (treeD d) (.setString p s))) = .ok t2 ∧
      bareL t2 = bareL (applyEdit (treeD d) (.setString p s)) ∧
      serL t2 = serL (applyEdit (treeD d) (.setString p s)) := by
  have hpe : p.isEmpty = false := by cases p with
    | nil => exact absurd rfl hp
    | cons _ _ => rfl
  have hupd := updAt_root_mapSel (strSel qc qe) (strTop s (-1)) (f := setStringE s) (treeD d) p t hget hsel
    hset huniq (by simp [rootWrap, strSel, hroot])
  have hT : applyEdit (treeD d) (.setString p s) = mapSelL (strSel qc qe) (strTop s (-1)) (treeD d) := by
    simp only [applyEdit, applyEditE, hpe, hupd]
    simp [rootWrap, Expr.body]
  obtain ⟨t2, h1, h2, h3⟩ := set_string_reparse_general tol skip d qc qe s 0 hwf hen hcn hq hsq
  have hb : bareL (mapSelL (strSel qc qe) (strTop s ((0 : Nat) : Int)) (treeD d)) =
      bareL (mapSelL (strSel qc qe) (strTop s (-1)) (treeD d)) :=
    bareL_mapSelL_congr _ _ _ (bare_strTop s _ _) _
  rw [hT]
  refine ⟨t2, ?_, ?_, ?_⟩
  · rw [← serL_of_bareL_eq hb]; exact h1
  · rw [← hb]; exact bareL_of_shapeL_eq h2
  · rw [← serL_of_bareL_eq hb]; exact h3

theorem sq_cmd {old : Str} {pos : Int} {skip : List Str} (hold : (old == sItem) = false) :
    SQ (qAt old pos) qNone skip :=
  ⟨fun p => by
      simp only [qAt]
      have : (sItem == old) = false := by
        cases h : sItem == old with
        | false => rfl
        | true => rw [beq_iff_eq] at h; rw [← h] at hold; simp at hold
      rw [this]; rfl,
   fun _ _ h => (by cases h)⟩

theorem sq_env {old : Str} {pos : Int} {skip : List Str} (hold : memStr old skip = false) :
    SQ qNone (qAt old pos) skip :=
  ⟨fun _ => rfl,
   fun s p h => by
      simp only [qAt, Bool.and_eq_true, beq_iff_eq] at h
      rw [h.1]; exact hold⟩

/-- **`node.string = s` on a single-argument command, then `str`, then parse**
(hypothesis: the squeezed token list of the re-stringed document is a tokenizer output). -/
theorem set_string_command_reparse (tol : Bool) (skip : List Str) (d : Doc) (p : Path)
    (old : Str) (a : Expr) (b : List Expr) (pos : Int) (s : Str)
    (hwf : WFD (Tables.skipEnvNames ++ skip) d = true) (hen : envNamesPlainS d = true)
    (hcn : cmdNamesPlainS d = true) (hp : p ≠ [])
    (hget : getAtRoot (treeD d) p = some (.cmd old [a] b pos)) (hold : (old == sItem) = false)
    (huniq : cntSelL (strSel (qAt old pos) qNone) (treeD d) = 1)
    (hsq : Separated none (toksD (squeezeD (setStrD (SetS.ofQ (qAt old pos) qNone s 0) d)))) :
    ∃ t2, parse tol skip (serL (applyEdit (treeD d) (.setString p s))) = .ok t2 ∧
      bareL t2 = bareL (applyEdit (treeD d) (.setString p s)) ∧
      serL t2 = serL (applyEdit (treeD d) (.setString p s)) :=
  set_string_reparse_edit tol skip d p _ (qAt old pos) qNone s hwf hen hcn (sq_cmd hold) hp hget
    (by simp [strSel, qAt]) (by simp [setStringE, strTop]) huniq rfl hsq

/-- **`node.string = s` on a text-only environment** (no arguments, one non-blank text). -/
theorem set_string_environment_reparse (tol : Bool) (skip : List Str) (d : Doc) (p : Path)
    (old u : Str) (pu pos : Int) (s : Str)
    (hwf : WFD (Tables.skipEnvNames ++ skip) d = true) (hen : envNamesPlainS d = true)
    (hcn : cmdNamesPlainS d = true) (hp : p ≠ [])
    (hget : getAtRoot (treeD d) p = some (.nenv old [] [.text u pu] pos)) (hu : isBlank u = false)
    (hpos : pos ≠ -1) (hold : memStr old (Tables.skipEnvNames ++ skip) = false)
    (huniq : cntSelL (strSel qNone (qAt old pos)) (treeD d) = 1)
    (hsq : Separated none (toksD (squeezeD (setStrD (SetS.ofQ qNone (qAt old pos) s 0) d)))) :
    ∃ t2, parse tol skip (serL (applyEdit (treeD d) (.setString p s))) = .ok t2 ∧
      bareL t2 = bareL (applyEdit (treeD d) (.setString p s)) ∧
      serL t2 = serL (applyEdit (treeD d) (.setString p s)) :=
  set_string_reparse_edit tol skip d p _ qNone (qAt old pos) s hwf hen hcn (sq_env hold) hp hget
    (by simp [strSel, qAt, isOneText])
    (by simp [setStringE, contentsOf, allOf, argsContents, dropBlank, Expr.isBlankText, hu, strTop,
      Expr.setBody])
    huniq (by simp only [qAt, Bool.and_eq_false_iff]; right; simpa using fun h => hpos h.symm) hsq

/-- **… from the source**: `d` well-formed, its tokens a tokenizer output without a bare sizing
prefix, environment names plain, `goodText s`. -/
theorem set_string_command_reparse_of_source (tol : Bool) (skip : List Str) (d : Doc) (p : Path)
    (old : Str) (a : Expr) (b : List Expr) (pos : Int) (s : Str)
    (hwf : WFD (Tables.skipEnvNames ++ skip) d = true) (hen : envNamesPlainS d = true)
    (hsep : Separated none (toksD d)) (hsz : C16G.noBareSizing (toksD d) = true) (hp : p ≠ [])
    (hget : getAtRoot (treeD d) p = some (.cmd old [a] b pos)) (hold : (old == sItem) = false)
    (huniq : cntSelL (strSel (qAt old pos) qNone) (treeD d) = 1) (hs : goodText s = true) :
    ∃ t2, parse tol skip (serL (applyEdit (treeD d) (.setString p s))) = .ok t2 ∧
      bareL t2 = bareL (applyEdit (treeD d) (.setString p s)) ∧
      serL t2 = serL (applyEdit (treeD d) (.setString p s)) :=
  set_string_command_reparse tol skip d p old a b pos s hwf hen (cmdNamesPlainS_of_separated hwf hsep hen)
    hp hget hold huniq
    (separated_squeeze_setStr ⟨rfl, hs⟩ hwf hsep (C16G.noBareSizing_spec hsz))

theorem set_string_environment_reparse_of_source (tol : Bool) (skip : List Str) (d : Doc) (p : Path)
    (old u : Str) (pu pos : Int) (s : Str)
    (hwf : WFD (Tables.skipEnvNames ++ skip) d = true) (hen : envNamesPlainS d = true)
    (hsep : Separated none (toksD d)) (hsz : C16G.noBareSizing (toksD d) = true) (hp : p ≠ [])
    (hget : getAtRoot (treeD d) p = some (.nenv old [] [.text u pu] pos)) (hu : isBlank u = false)
    (hpos : pos ≠ -1) (hold : memStr old (Tables.skipEnvNames ++ skip) = false)
    (huniq : cntSelL (strSel qNone (qAt old pos)) (treeD d) = 1) (hs : goodText s = true) :
    ∃ t2, parse tol skip (serL (applyEdit (treeD d) (.setString p s))) = .ok t2 ∧
      bareL t2 = bareL (applyEdit (treeD d) (.setString p s)) ∧
      serL t2 = serL (applyEdit (treeD d) (.setString p s)) :=
  set_string_environment_reparse tol skip d p old u pu pos s hwf hen
    (cmdNamesPlainS_of_separated hwf hsep hen) hp hget hu hpos hold huniq
    (separated_squeeze_setStr ⟨rfl, hs⟩ hwf hsep (C16G.noBareSizing_spec hsz))

/-! ## `node.args = [own arguments, reordered / sliced]`

`Gram.setArgs r` gives the selected node the argument run `[args[i] for i in i1 ++ i2 ++ i3 ++ i4]`
where the groups picked by `i1` are bracket groups, by `i2` brace groups, by `i3` bracket groups,
by `i4` brace groups (`argSel`; for an environment `i1 = []`: the run behind `\begin{name}` is
`{..}* [..]* {..}*`). This is the shape of run `read_args` reads: `[..]* {..}*` and then, directly
behind a brace group, once more `[..]* {..}*` – a list whose kinds are not of this form is *not*
read back as one run (`exInterleaved` below: `{a}[b]{c}[d]` – the fourth group stays text).
The tree of the re-argumented document is the edit `.setArgs p (pick idx args)` of the edit model
(`treeD_setArgs`, `updAt_root_mapSel`): same groups, same contents, same positions.

Whether the run is read back *completely and alone* further depends on the signature of the name
(a fixed signature takes a fixed number of groups) and on what follows the command (a following
`[` / `{` would be absorbed or not, depending on what the run ends with): these are exactly the
conditions `Gram.runOK` of the grammar, i.e. the well-formedness of the re-argumented document,
which is a (decidable) hypothesis here (`hwf'`), as is `Separated` of its squeezed token list
(slicing to the empty list may glue the name to a following letter: `exGlue`). -/

theorem set_args_reparse_general (tol : Bool) (skip : List Str) (d : Doc)
    (qc qe : Str → Int → Bool) (i1 i2 i3 i4 : List Nat)
    (hwf : WFD (Tables.skipEnvNames ++ skip) d = true) (hen : envNamesPlainS d = true)
    (hcn : cmdNamesPlainS d = true) (hq : SQ qc qe (Tables.skipEnvNames ++ skip))
    (hwf' : WFD (Tables.skipEnvNames ++ skip) (setArgsD (SetA.ofQ qc qe i1 i2 i3 i4) d) = true)
    (hsq : Separated none (toksD (squeezeD (setArgsD (SetA.ofQ qc qe i1 i2 i3 i4) d)))) :
    ∃ t2, parse tol skip (serL (mapSelL (argSel qc qe i1 i2 i3 i4) (argTop (i1 ++ (i2 ++ (i3 ++ i4)))) (treeD d)))
        = .ok t2 ∧
      shapeL t2 = shapeL (mapSelL (argSel qc qe i1 i2 i3 i4) (argTop (i1 ++ (i2 ++ (i3 ++ i4)))) (treeD d)) ∧
      serL t2 = serL (mapSelL (argSel qc qe i1 i2 i3 i4) (argTop (i1 ++ (i2 ++ (i3 ++ i4)))) (treeD d)) := by
  have hen' : envNamesPlainS (setArgsD (SetA.ofQ qc qe i1 i2 i3 i4) d) = true :=
    envNamesPlainS_setArgs _ d hen
  have h := C16G.reparse_fixed_point tol skip _ hwf' hen' hsq
  rw [treeD_setArgs d hwf hcn hen hq] at h
  exact h

/-- … for the edit model: `t` is the node at path `p`, the only applicable selected one. -/
theorem set_args_reparse_edit (tol : Bool) (skip : List Str) (d : Doc) (p : Path) (t : Expr)
    (qc qe : Str → Int → Bool) (i1 i2 i3 i4 : List Nat)
    (hwf : WFD (Tables.skipEnvNames ++ skip) d = true) (hen : envNamesPlainS d = true)
    (hcn : cmdNamesPlainS d = true) (hq : SQ qc qe (Tables.skipEnvNames ++ skip))
    (hp : p ≠ []) (hget : getAtRoot (treeD d) p = some t) (hsel : argSel qc qe i1 i2 i3 i4 t = true)
    (hset : setArgsE (pick (i1 ++ (i2 ++ (i3 ++ i4))) t.args) t = some (argTop (i1 ++ (i2 ++ (i3 ++ i4))) t))
    (huniq : cntSelL (argSel qc qe i1 i2 i3 i4) (treeD d) = 1) (hroot : qe [] (-1) = false)
    (hwf' : WFD (Tables.skipEnvNames ++ skip) (setArgsD (SetA.ofQ qc qe i1 i2 i3 i4) d) = true)
    (hsq : Separated none (toksD (squeezeD (setArgsD (SetA.ofQ qc qe i1 i2 i3 i4) d)))) :
    ∃ t2, parse tol skip (serL (applyEdit (treeD d) (.setArgs p (pick (i1 ++ (i2 ++ (i3 ++ i4))) t.args)))) = .ok t2 ∧
      shapeL t2 = shapeL (applyEdit (treeD d) (.setArgs p (pick (i1 ++ (i2 ++ (i3 ++ i4))) t.args))) ∧
      serL t2 = serL (applyEdit (treeD d) (.setArgs p (pick (i1 ++ (i2 ++ (i3 ++ i4))) t.args))) := by
  have hpe : p.isEmpty = false := by cases p with
    | nil => exact absurd rfl hp
    | cons _ _ => rfl
  have hupd := updAt_root_mapSel (argSel qc qe i1 i2 i3 i4) (argTop (i1 ++ (i2 ++ (i3 ++ i4))))
    (f := setArgsE (pick (i1 ++ (i2 ++ (i3 ++ i4))) t.args)) (treeD d) p t hget hsel hset huniq
    (by simp [rootWrap, argSel, hroot])
  have hT : applyEdit (treeD d) (.setArgs p (pick (i1 ++ (i2 ++ (i3 ++ i4))) t.args)) =
      mapSelL (argSel qc qe i1 i2 i3 i4) (argTop (i1 ++ (i2 ++ (i3 ++ i4)))) (treeD d) := by
    simp only [applyEdit, applyEditE, hpe, hupd]
    simp [rootWrap, Expr.body]
  rw [hT]
  exact set_args_reparse_general tol skip d qc qe i1 i2 i3 i4 hwf hen hcn hq hwf' hsq

/-- **`node.args = [args[i] for i in i1 ++ i2 ++ i3 ++ i4]` on a command, then `str`, then parse.**
The picked groups are brackets, braces, brackets, braces (`hk`), the re-argumented document is
well-formed (`hwf'`: signature and following tokens admit the run) and its squeezed token list is a
tokenizer output. -/
theorem set_args_command_reparse (tol : Bool) (skip : List Str) (d : Doc) (p : Path)
    (old : Str) (a b : List Expr) (pos : Int) (i1 i2 i3 i4 : List Nat)
    (hwf : WFD (Tables.skipEnvNames ++ skip) d = true) (hen : envNamesPlainS d = true)
    (hcn : cmdNamesPlainS d = true) (hp : p ≠ [])
    (hget : getAtRoot (treeD d) p = some (.cmd old a b pos)) (hold : (old == sItem) = false)
    (hk : ((pick i1 a).all (isGroupOf .bracket) && (pick i2 a).all (isGroupOf .brace)
      && (pick i3 a).all (isGroupOf .bracket) && (pick i4 a).all (isGroupOf .brace)) = true)
    (huniq : cntSelL (argSel (qAt old pos) qNone i1 i2 i3 i4) (treeD d) = 1)
    (hwf' : WFD (Tables.skipEnvNames ++ skip) (setArgsD (SetA.ofQ (qAt old pos) qNone i1 i2 i3 i4) d) = true)
    (hsq : Separated none (toksD (squeezeD (setArgsD (SetA.ofQ (qAt old pos) qNone i1 i2 i3 i4) d)))) :
    ∃ t2, parse tol skip (serL (applyEdit (treeD d) (.setArgs p (pick (i1 ++ (i2 ++ (i3 ++ i4))) a)))) = .ok t2 ∧
      shapeL t2 = shapeL (applyEdit (treeD d) (.setArgs p (pick (i1 ++ (i2 ++ (i3 ++ i4))) a))) ∧
      serL t2 = serL (applyEdit (treeD d) (.setArgs p (pick (i1 ++ (i2 ++ (i3 ++ i4))) a))) :=
  set_args_reparse_edit tol skip d p (.cmd old a b pos) (qAt old pos) qNone i1 i2 i3 i4 hwf hen hcn
    (sq_cmd hold) hp hget
    (by
      simp only [Bool.and_eq_true] at hk
      simp [argSel, qAt, hk.1.1.1, hk.1.1.2, hk.1.2, hk.2])
    (by simp [setArgsE, argTop, Expr.args]) huniq rfl hwf' hsq

/-- **… on an environment**: the run behind `\begin{name}` is braces, brackets, braces. -/
theorem set_args_environment_reparse (tol : Bool) (skip : List Str) (d : Doc) (p : Path)
    (old : Str) (a b : List Expr) (pos : Int) (i2 i3 i4 : List Nat)
    (hwf : WFD (Tables.skipEnvNames ++ skip) d = true) (hen : envNamesPlainS d = true)
    (hcn : cmdNamesPlainS d = true) (hp : p ≠ [])
    (hget : getAtRoot (treeD d) p = some (.nenv old a b pos)) (hpos : pos ≠ -1)
    (hold : memStr old (Tables.skipEnvNames ++ skip) = false)
    (hk : ((pick i2 a).all (isGroupOf .brace) && (pick i3 a).all (isGroupOf .bracket)
      && (pick i4 a).all (isGroupOf .brace)) = true)
    (huniq : cntSelL (argSel qNone (qAt old pos) [] i2 i3 i4) (treeD d) = 1)
    (hwf' : WFD (Tables.skipEnvNames ++ skip) (setArgsD (SetA.ofQ qNone (qAt old pos) [] i2 i3 i4) d) = true)
    (hsq : Separated none (toksD (squeezeD (setArgsD (SetA.ofQ qNone (qAt old pos) [] i2 i3 i4) d)))) :
    ∃ t2, parse tol skip (serL (applyEdit (treeD d) (.setArgs p (pick (i2 ++ (i3 ++ i4)) a)))) = .ok t2 ∧
      shapeL t2 = shapeL (applyEdit (treeD d) (.setArgs p (pick (i2 ++ (i3 ++ i4)) a))) ∧
      serL t2 = serL (applyEdit (treeD d) (.setArgs p (pick (i2 ++ (i3 ++ i4)) a))) := by
  have h := set_args_reparse_edit tol skip d p (.nenv old a b pos) qNone (qAt old pos) [] i2 i3 i4 hwf hen hcn
    (sq_env hold) hp hget
    (by
      simp only [Bool.and_eq_true] at hk
      simp [argSel, qAt, hk.1.1, hk.1.2, hk.2])
    (by simp [setArgsE, argTop, Expr.args]) huniq
    (by simp only [qAt, Bool.and_eq_false_iff]; right; simpa using fun h => hpos h.symm) hwf' hsq
  simpa [Expr.args] using h

/-! ## Non-vacuity -/

private def t (s : Str) (p : Nat) (c : TC) : Tok := ⟨s, p, c⟩

def sFoo : Str := [102, 111, 111]
def sBar : Str := [98, 97, 114]

/-- `\begin{a}\item\foo{b}x\end{a}` – a command inside an `\item` inside an environment -/
def exDoc : Doc :=
  [.env (t [92] 0 .Escape) (t sBegin 1 .CommandName)
    ⟨none, t [123] 6 .GroupBegin, t [97] 7 .Text, t [125] 8 .GroupEnd⟩ [] [] []
    [.item (t [92] 9 .Escape) (t sItem 10 .CommandName) [] [] [] []
      [.cmd (t [92] 14 .Escape) (t sFoo 15 .CommandName) []
         [.mk none (t [123] 18 .GroupBegin) [.leaf (t [98] 19 .Text)] (t [125] 20 .GroupEnd)] [] [],
       .leaf (t [120] 21 .Text)]]
    (t [92] 22 .Escape) (t sEnd 23 .CommandName)
    ⟨none, t [123] 26 .GroupBegin, t [97] 27 .Text, t [125] 28 .GroupEnd⟩]

/-- `\foo{a}` -/
def exSig0 : Doc :=
  [.cmd (t [92] 0 .Escape) (t sFoo 1 .CommandName) []
    [.mk none (t [123] 4 .GroupBegin) [.leaf (t [97] 5 .Text)] (t [125] 6 .GroupEnd)] [] []]

/-- rename the command `\foo` at offset 14 to `\bar` -/
def exRen : Ren := Ren.ofQ (qAt sFoo 14) sBar qNone []

example : flat (toksD exDoc) = [92, 98, 101, 103, 105, 110, 123, 97, 125, 92, 105, 116, 101, 109, 92, 102,
    111, 111, 123, 98, 125, 120, 92, 101, 110, 100, 123, 97, 125] := by decide
example : WFD Tables.skipEnvNames exDoc = true ∧ envNamesPlainS exDoc = true ∧
    cmdNamesPlainS exDoc = true ∧ Separated none (toksD exDoc) ∧
    Separated none (toksD (squeezeD (renameD exRen exDoc))) := by decide +kernel
example : sameRole sFoo sBar = true ∧ strip sBar = sBar := by decide
example : WFD Tables.skipEnvNames (renameD exRen exDoc) = true := by decide
example : treeD exDoc =
    [.nenv [97] [] [.cmd sItem [] [.cmd sFoo [.group .brace [.text [98] 19] 18] [] 14, .text [120] 21] 9] 0] := by
  rfl
example : treeD (renameD exRen exDoc) =
    [.nenv [97] [] [.cmd sItem [] [.cmd sBar [.group .brace [.text [98] 19] 18] [] 14, .text [120] 21] 9] 0] := by
  rfl
/-- the path of `\foo`: root body 0 (the environment), body 0 (the `\item`), body 0 -/
example : getAtRoot (treeD exDoc) [.body 0, .body 0, .body 0] =
    some (.cmd sFoo [.group .brace [.text [98] 19] 18] [] 14) := by rfl
example : selCountL (qAt sFoo 14) qNone (treeD exDoc) = 1 := by decide
example : applyEdit (treeD exDoc) (.rename [.body 0, .body 0, .body 0] sBar) =
    treeD (renameD exRen exDoc) := by rfl
example : serL (applyEdit (treeD exDoc) (.rename [.body 0, .body 0, .body 0] sBar)) =
    [92, 98, 101, 103, 105, 110, 123, 97, 125, 92, 105, 116, 101, 109, 92, 98, 97, 114, 123, 98, 125,
     120, 92, 101, 110, 100, 123, 97, 125] := by decide

example : ∃ t2, parse false [] (serL (applyEdit (treeD exDoc) (.rename [.body 0, .body 0, .body 0] sBar))) = .ok t2 ∧
    shapeL t2 = shapeL (applyEdit (treeD exDoc) (.rename [.body 0, .body 0, .body 0] sBar)) ∧
    serL t2 = serL (applyEdit (treeD exDoc) (.rename [.body 0, .body 0, .body 0] sBar)) :=
  rename_command_reparse false [] exDoc _ sFoo sBar _ _ 14 (by decide) (by decide) (by decide) (by decide)
    (by rfl) (by decide) (by decide) (by decide) (by decide +kernel)

example : ∃ t2, parse true [] (serL (applyEdit (treeD exDoc) (.rename [.body 0, .body 0, .body 0] sBar))) = .ok t2 ∧
    shapeL t2 = shapeL (applyEdit (treeD exDoc) (.rename [.body 0, .body 0, .body 0] sBar)) ∧
    serL t2 = serL (applyEdit (treeD exDoc) (.rename [.body 0, .body 0, .body 0] sBar)) :=
  rename_command_reparse_of_source true [] exDoc _ sFoo sBar _ _ 14 (by decide) (by decide) (by decide +kernel)
    (by decide) (by decide) (by rfl) (by decide) (by decide) (by decide) (by decide) (by decide)

/-- … and the environment `a` (path: root body 0) renamed to `b`: both name groups change. -/
def exRenEnv : Ren := Ren.ofQ qNone [] (qAt [97] 0) [98]

example : treeD (renameD exRenEnv exDoc) =
    [.nenv [98] [] [.cmd sItem [] [.cmd sFoo [.group .brace [.text [98] 19] 18] [] 14, .text [120] 21] 9] 0] := by
  rfl
example : flat (toksD (renameD exRenEnv exDoc)) = [92, 98, 101, 103, 105, 110, 123, 98, 125, 92, 105, 116, 101,
    109, 92, 102, 111, 111, 123, 98, 125, 120, 92, 101, 110, 100, 123, 98, 125] := by decide
example : ∃ t2, parse true [] (serL (applyEdit (treeD exDoc) (.rename [.body 0] [98]))) = .ok t2 ∧
    shapeL t2 = shapeL (applyEdit (treeD exDoc) (.rename [.body 0] [98])) ∧
    serL t2 = serL (applyEdit (treeD exDoc) (.rename [.body 0] [98])) :=
  rename_environment_reparse true [] exDoc _ [97] [98] _ _ 0 (by decide) (by decide) (by decide) (by decide)
    (by rfl) (by decide) (by decide) (by decide) (by decide) (by decide) (by decide +kernel)

example : ∃ t2, parse false [] (serL (applyEdit (treeD exDoc) (.rename [.body 0] [98]))) = .ok t2 ∧
    shapeL t2 = shapeL (applyEdit (treeD exDoc) (.rename [.body 0] [98])) ∧
    serL t2 = serL (applyEdit (treeD exDoc) (.rename [.body 0] [98])) :=
  rename_environment_reparse_of_source false [] exDoc _ [97] [98] _ _ 0 (by decide) (by decide)
    (by decide +kernel) (by decide) (by decide) (by rfl) (by decide) (by decide) (by decide) (by decide)
    (by decide) (by decide) (by decide)

/-! ### `node.string = s` -/

/-- the new string `hi 1` -/
def sHi : Str := [104, 105, 32, 49]

example : goodText sHi = true ∧ cntSelL (strSel (qAt sFoo 14) qNone) (treeD exDoc) = 1 := by decide
example : applyEdit (treeD exDoc) (.setString [.body 0, .body 0, .body 0] sHi) =
    [.nenv [97] [] [.cmd sItem [] [.cmd sFoo [.group .brace [.text sHi (-1)] 18] [] 14, .text [120] 21] 9] 0] := by
  rfl
example : treeD (setStrD (SetS.ofQ (qAt sFoo 14) qNone sHi 0) exDoc) =
    [.nenv [97] [] [.cmd sItem [] [.cmd sFoo [.group .brace [.text sHi 0] 18] [] 14, .text [120] 21] 9] 0] := by
  rfl
example : ∃ t2, parse false [] (serL (applyEdit (treeD exDoc) (.setString [.body 0, .body 0, .body 0] sHi))) = .ok t2 ∧
    bareL t2 = bareL (applyEdit (treeD exDoc) (.setString [.body 0, .body 0, .body 0] sHi)) ∧
    serL t2 = serL (applyEdit (treeD exDoc) (.setString [.body 0, .body 0, .body 0] sHi)) :=
  set_string_command_reparse_of_source false [] exDoc _ sFoo _ _ 14 sHi (by decide) (by decide)
    (by decide +kernel) (by decide) (by decide) (by rfl) (by decide) (by decide) (by decide)

/-- `\begin{a}xy\end{a}z` – a text-only environment -/
def exEnvT : Doc :=
  [.env (t [92] 0 .Escape) (t sBegin 1 .CommandName)
    ⟨none, t [123] 6 .GroupBegin, t [97] 7 .Text, t [125] 8 .GroupEnd⟩ [] [] []
    [.leaf (t [120, 121] 9 .Text)]
    (t [92] 11 .Escape) (t sEnd 12 .CommandName)
    ⟨none, t [123] 15 .GroupBegin, t [97] 16 .Text, t [125] 17 .GroupEnd⟩,
   .leaf (t [122] 18 .Text)]

example : applyEdit (treeD exEnvT) (.setString [.body 0] sHi) =
    [.nenv [97] [] [.text sHi (-1)] 0, .text [122] 18] := by rfl
example : serL (applyEdit (treeD exEnvT) (.setString [.body 0] sHi)) =
    [92, 98, 101, 103, 105, 110, 123, 97, 125, 104, 105, 32, 49, 92, 101, 110, 100, 123, 97, 125, 122] := by
  decide
example : ∃ t2, parse true [] (serL (applyEdit (treeD exEnvT) (.setString [.body 0] sHi))) = .ok t2 ∧
    bareL t2 = bareL (applyEdit (treeD exEnvT) (.setString [.body 0] sHi)) ∧
    serL t2 = serL (applyEdit (treeD exEnvT) (.setString [.body 0] sHi)) :=
  set_string_environment_reparse_of_source true [] exEnvT _ [97] [120, 121] 9 0 sHi (by decide) (by decide)
    (by decide +kernel) (by decide) (by decide) (by rfl) (by decide) (by decide) (by decide) (by decide)
    (by decide)

/-- `goodText s` is needed. The empty string: the edited tree holds an empty text leaf, the
re-parsed group is empty. A closing brace: the group ends early. -/
example : goodText [] = false ∧ goodText [125] = false := by decide
example : applyEdit (treeD exSig0) (.setString [.body 0] []) =
    [.cmd sFoo [.group .brace [.text [] (-1)] 4] [] 0] := by rfl
example : parse false [] (serL (applyEdit (treeD exSig0) (.setString [.body 0] []))) =
    .ok [.cmd sFoo [.group .brace [] 4] [] 0] := by rfl
example : parse false [] (serL (applyEdit (treeD exSig0) (.setString [.body 0] [125]))) =
    .ok [.cmd sFoo [.group .brace [] 4] [] 0, .text [125] 6] := by rfl

/-! ### `node.args = …` -/

/-- `\x[b][d]{a}{c}` -/
def exArgs : Doc :=
  [.cmd (t [92] 0 .Escape) (t [120] 1 .CommandName)
    [.mk none (t [91] 2 .BracketBegin) [.leaf (t [98] 3 .Text)] (t [93] 4 .BracketEnd),
     .mk none (t [91] 5 .BracketBegin) [.leaf (t [100] 6 .Text)] (t [93] 7 .BracketEnd)]
    [.mk none (t [123] 8 .GroupBegin) [.leaf (t [97] 9 .Text)] (t [125] 10 .GroupEnd),
     .mk none (t [123] 11 .GroupBegin) [.leaf (t [99] 12 .Text)] (t [125] 13 .GroupEnd)] [] []]

example : WFD Tables.skipEnvNames exArgs = true ∧ Separated none (toksD exArgs) := by decide +kernel
example : treeD exArgs = [.cmd [120] [.group .bracket [.text [98] 3] 2, .group .bracket [.text [100] 6] 5,
    .group .brace [.text [97] 9] 8, .group .brace [.text [99] 12] 11] [] 0] := by rfl

/-- the reversal `{c}{a}[d][b]` (indices 3,2 | 1,0: braces, then brackets directly behind) and the
slice `[d]{a}` are read back -/
example : ∃ t2, parse false [] (serL (applyEdit (treeD exArgs) (.setArgs [.body 0]
      (pick ([] ++ ([3, 2] ++ ([1, 0] ++ []))) [.group .bracket [.text [98] 3] 2, .group .bracket [.text [100] 6] 5,
        .group .brace [.text [97] 9] 8, .group .brace [.text [99] 12] 11])))) = .ok t2 ∧
    shapeL t2 = shapeL (applyEdit (treeD exArgs) (.setArgs [.body 0]
      (pick ([] ++ ([3, 2] ++ ([1, 0] ++ []))) [.group .bracket [.text [98] 3] 2, .group .bracket [.text [100] 6] 5,
        .group .brace [.text [97] 9] 8, .group .brace [.text [99] 12] 11]))) ∧
    serL t2 = serL (applyEdit (treeD exArgs) (.setArgs [.body 0]
      (pick ([] ++ ([3, 2] ++ ([1, 0] ++ []))) [.group .bracket [.text [98] 3] 2, .group .bracket [.text [100] 6] 5,
        .group .brace [.text [97] 9] 8, .group .brace [.text [99] 12] 11]))) :=
  set_args_command_reparse false [] exArgs _ [120] _ [] 0 [] [3, 2] [1, 0] [] (by decide) (by decide)
    (by decide) (by decide) (by rfl) (by decide) (by decide) (by decide) (by decide) (by decide +kernel)
example : serL (applyEdit (treeD exArgs) (.setArgs [.body 0]
      (pick [3, 2, 1, 0] [.group .bracket [.text [98] 3] 2, .group .bracket [.text [100] 6] 5,
        .group .brace [.text [97] 9] 8, .group .brace [.text [99] 12] 11]))) =
    [92, 120, 123, 99, 125, 123, 97, 125, 91, 100, 93, 91, 98, 93] := by decide
example : ∃ t2, parse true [] (serL (applyEdit (treeD exArgs) (.setArgs [.body 0]
      (pick ([1] ++ ([2] ++ ([] ++ []))) [.group .bracket [.text [98] 3] 2, .group .bracket [.text [100] 6] 5,
        .group .brace [.text [97] 9] 8, .group .brace [.text [99] 12] 11])))) = .ok t2 ∧ True :=
  let ⟨t2, h, _⟩ := set_args_command_reparse true [] exArgs _ [120] _ [] 0 [1] [2] [] [] (by decide) (by decide)
    (by decide) (by decide) (by rfl) (by decide) (by decide) (by decide) (by decide) (by decide +kernel)
  ⟨t2, h, trivial⟩

/-- **The re-parse clause fails for an interleaved reordering**: `x.args = [args[2], args[0],
args[3], args[1]]` prints `\x{a}[b]{c}[d]`; the reader takes `{a}[b]{c}` and leaves `[d]` as
text. The kinds brace, bracket, brace, bracket are not of the form `[^k {^l [^m {^n`. -/
def exInterleaved : List Expr :=
  applyEdit (treeD exArgs) (.setArgs [.body 0]
    (pick [2, 0, 3, 1] [.group .bracket [.text [98] 3] 2, .group .bracket [.text [100] 6] 5,
      .group .brace [.text [97] 9] 8, .group .brace [.text [99] 12] 11]))

example : exInterleaved = [.cmd [120] [.group .brace [.text [97] 9] 8, .group .bracket [.text [98] 3] 2,
    .group .brace [.text [99] 12] 11, .group .bracket [.text [100] 6] 5] [] 0] := by rfl
example : serL exInterleaved = [92, 120, 123, 97, 125, 91, 98, 93, 123, 99, 125, 91, 100, 93] := by decide
theorem shapeL_length (es : List Expr) : (shapeL es).length = es.length := by
  induction es with
  | nil => rfl
  | cons e es ih => simp [ih]

/-- the text `\x{a}[b]{c}[d]` is read as a command with THREE arguments followed by three text
leaves `[`, `d`, `]`; whatever tree it is, it has not the shape of the edited tree (one node). -/
theorem interleaved_args_not_read_back :
    (match parse false [] (serL exInterleaved) with
      | .ok [.cmd _ a _ _, .text x _, .text y _, .text z _] => (a.length, x, y, z)
      | _ => (0, [], [], [])) = (3, [91], [100], [93]) ∧
    ∀ t2, parse false [] (serL exInterleaved) = .ok t2 → shapeL t2 ≠ shapeL exInterleaved := by
  have hser : serL exInterleaved = [92, 120, 123, 97, 125, 91, 98, 93, 123, 99, 125, 91, 100, 93] := by decide
  have hE : exInterleaved = [.cmd [120] [.group .brace [.text [97] 9] 8, .group .bracket [.text [98] 3] 2,
      .group .brace [.text [99] 12] 11, .group .bracket [.text [100] 6] 5] [] 0] := by rfl
  have hlen : (match parse false [] [92, 120, 123, 97, 125, 91, 98, 93, 123, 99, 125, 91, 100, 93] with
      | .ok t => t.length
      | .error _ => 0) = 4 := by decide +kernel
  rw [hser]
  refine ⟨by decide +kernel, ?_⟩
  intro t2 h2 hs
  rw [h2] at hlen
  have := congrArg List.length hs
  rw [shapeL_length, shapeL_length, hE] at this
  simp at hlen
  simp [hlen] at this
/-- no split of the indices 2,0,3,1 has the kinds of a readable run, e.g. -/
example : argSel (qAt [120] 0) qNone [] [2] [0] [3, 1] (.cmd [120] [.group .bracket [.text [98] 3] 2,
    .group .bracket [.text [100] 6] 5, .group .brace [.text [97] 9] 8, .group .brace [.text [99] 12] 11] [] 0)
    = false := by decide

/-- `\x{a}b` with `x.args = []` prints `\xb`: another command (`hsq` fails). -/
def exGlue : Doc :=
  [.cmd (t [92] 0 .Escape) (t [120] 1 .CommandName) []
    [.mk none (t [123] 2 .GroupBegin) [.leaf (t [97] 3 .Text)] (t [125] 4 .GroupEnd)] [] [],
   .leaf (t [98] 5 .Text)]
example : WFD Tables.skipEnvNames exGlue = true ∧ Separated none (toksD exGlue) ∧
    WFD Tables.skipEnvNames (setArgsD (SetA.ofQ (qAt [120] 0) qNone [] [] [] []) exGlue) = true ∧
    ¬ Separated none (toksD (squeezeD (setArgsD (SetA.ofQ (qAt [120] 0) qNone [] [] [] []) exGlue))) := by
  decide +kernel
example : parse false [] (serL (applyEdit (treeD exGlue) (.setArgs [.body 0] []))) =
    .ok [.cmd [120, 98] [] [] 0] := by rfl

/-! ### the side conditions are needed -/

/-- `\foo x` renamed to `\item x`: the renamed tree is a command `item` *without* contents
followed by a text; its text `\item x` parses to an `\item` that owns the text. -/
def exItem : Doc :=
  [.cmd (t [92] 0 .Escape) (t sFoo 1 .CommandName) [] [] [] [], .leaf (t [32, 120] 4 .Text)]

example : WFD Tables.skipEnvNames exItem = true ∧ sameRole sFoo sItem = false := by decide
example : applyEdit (treeD exItem) (.rename [.body 0] sItem) = [.cmd sItem [] [] 0, .text [32, 120] 4] := by
  rfl
example : parse false [] (serL (applyEdit (treeD exItem) (.rename [.body 0] sItem))) =
    .ok [.cmd sItem [] [.text [32, 120] 5] 0] := by rfl

/-- `\foo{a}{b}` renamed to `\textbf{a}{b}` (signature `(1, 0)`): the renamed tree has two
arguments, the re-parsed one has one argument and a free group. -/
def sTextbf : Str := [116, 101, 120, 116, 98, 102]
def exSig : Doc :=
  [.cmd (t [92] 0 .Escape) (t sFoo 1 .CommandName) []
    [.mk none (t [123] 4 .GroupBegin) [.leaf (t [97] 5 .Text)] (t [125] 6 .GroupEnd),
     .mk none (t [123] 7 .GroupBegin) [.leaf (t [98] 8 .Text)] (t [125] 9 .GroupEnd)] [] []]

example : WFD Tables.skipEnvNames exSig = true ∧ sameRole sFoo sTextbf = false := by decide
example : applyEdit (treeD exSig) (.rename [.body 0] sTextbf) =
    [.cmd sTextbf [.group .brace [.text [97] 5] 4, .group .brace [.text [98] 8] 7] [] 0] := by rfl
example : parse false [] (serL (applyEdit (treeD exSig) (.rename [.body 0] sTextbf))) =
    .ok [.cmd sTextbf [.group .brace [.text [97] 8] 7] [] 0, .group .brace [.text [98] 11] 10] := by rfl

/-- `\foo(x` renamed to `\left(x`: `new ∉ sizePrefix` is needed – `left(` is one sizing-command
token, the renamed token list is no tokenizer output (and the text of the renamed tree does not
parse to the renamed tree). -/
def sLeft : Str := [108, 101, 102, 116]
def exSizing : Doc :=
  [.cmd (t [92] 0 .Escape) (t sFoo 1 .CommandName) [] [] [] [], .leaf (t [40, 120] 4 .Text)]

example : WFD Tables.skipEnvNames exSizing = true ∧ Separated none (toksD exSizing) ∧
    sameRole sFoo sLeft = true ∧ goodName sLeft = true ∧ sLeft ∈ Tables.sizePrefix ∧
    ¬ Separated none (toksD (squeezeD (renameD (Ren.ofQ (qAt sFoo 0) sLeft qNone []) exSizing))) := by
  decide +kernel
example : applyEdit (treeD exSizing) (.rename [.body 0] sLeft) = [.cmd sLeft [] [] 0, .text [40, 120] 4] := by
  rfl
example : parse false [] (serL (applyEdit (treeD exSizing) (.rename [.body 0] sLeft))) =
    .ok [.cmd [108, 101, 102, 116, 40] [] [] 0, .text [120] 6] := by rfl

/-- `\begin{a}\item\foo{b}x\end{a}` renamed to `equation`: `envRole` is needed – the body of a
math environment is read in math mode, where `\item` is an error. -/
def sEquation : Str := [101, 113, 117, 97, 116, 105, 111, 110]
example : envRole [97] sEquation = false := by decide
example : (parse false [] (serL (applyEdit (treeD exDoc) (.rename [.body 0] sEquation)))).toBool = false := by
  decide +kernel

end TexSoup.C14G
