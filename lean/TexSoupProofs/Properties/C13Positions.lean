import TexSoupProofs.Reader.Positions
import TexSoupProofs.Properties.TokHyp
import TexSoupProofs.Properties.C19
/-!
# C13, clause "positions": every node's recorded position is where its text starts

For every node `x` of a parsed document (`subExprsL es`: all nodes, through arguments and
bodies) that has a position (`0 ≤ x.pos`; only the made-up brace group of a bare-token
argument and the text in it carry `-1`), the source carries at offset `x.pos` the first token
the node was read from, and the node's text `str(x)` starts with that token:

* `\` for a command and for a `\begin{..}` environment,
* the opening delimiter for a group (`{`, `[`) and a math region (`$`, `$$`, `\(`, `\[`),
* the token itself for a text leaf (`readExpr_text`: text and position are the token's).

One kind of node is not covered by "starts with": the text child of an *empty*
verbatim-like environment (`\begin{verbatim}\end{verbatim}`) is `''` and is recorded at the
offset of the `\` of `\end` (`read_skip_env` peeks the position before it reads the body).
The theorem therefore says `ser x = [] ∨ …`; `intended_statement_false` shows that the
disjunct cannot be dropped. A node with empty text is necessarily such a leaf (`ser_eq_nil`).

The statement that was intended (kept for reference; false because of the case above):

    theorem node_positions' (hs : ∀ c ∈ s, isIgnored (catOf c) = false)
        (ht : tokenize s = some ts) (h : parse tol skip s = .ok es) :
        ∀ x ∈ subExprsL es, 0 ≤ x.pos → ∃ t ∈ ts, (t.pos : Int) = x.pos ∧
          isPrefix t.text (ser x) = true ∧ t.text = (s.drop t.pos).take t.text.length

No hypothesis on ignored characters (NUL/DEL) is needed: the claim for a command looks only at
its `\`, never at the name token behind it, and `token_offsets`/`tokens_shaped` hold for every
input.
-/
namespace TexSoup.C13
open TexSoup

variable {tol : Bool} {skip : List Str} {s : Str} {ts : List Tok} {es : List Expr}

/-- **C13 (positions).** At offset `x.pos` the source carries the first token of the node, and
the node's text starts with that token (or is empty: empty verbatim-like environment). -/
theorem node_positions (ht : tokenize s = some ts) (h : parse tol skip s = .ok es) :
    ∀ x ∈ subExprsL es, 0 ≤ x.pos →
      ∃ t ∈ ts, (t.pos : Int) = x.pos ∧ (ser x = [] ∨ isPrefix t.text (ser x) = true) ∧
        t.text = (s.drop t.pos).take t.text.length := by
  intro x hx h0
  have hloc : LocatedL ts es := parse_located ht (tokens_shaped ht) h
  obtain ⟨t, htm, hp, hpre⟩ := hloc.nodes es x hx h0
  exact ⟨t, htm, hp, hpre, token_offsets ht t htm⟩

/-- For every node that is not an empty text leaf - in particular every command, environment,
group and math region - the text starts with the token. -/
theorem node_positions_nonempty (ht : tokenize s = some ts) (h : parse tol skip s = .ok es) :
    ∀ x ∈ subExprsL es, 0 ≤ x.pos → ser x ≠ [] →
      ∃ t ∈ ts, (t.pos : Int) = x.pos ∧ isPrefix t.text (ser x) = true ∧
        t.text = (s.drop t.pos).take t.text.length := by
  intro x hx h0 hne
  obtain ⟨t, htm, hp, hpre, hoff⟩ := node_positions ht h x hx h0
  rcases hpre with hnil | hpre
  · exact absurd hnil hne
  · exact ⟨t, htm, hp, hpre, hoff⟩

/-- The same with the hypotheses of the work-package statement (no ignored characters). -/
theorem node_positions_noIgnored (_hs : ∀ c ∈ s, isIgnored (catOf c) = false)
    (ht : tokenize s = some ts) (h : parse tol skip s = .ok es) :
    ∀ x ∈ subExprsL es, 0 ≤ x.pos →
      ∃ t ∈ ts, (t.pos : Int) = x.pos ∧ (ser x = [] ∨ isPrefix t.text (ser x) = true) ∧
        t.text = (s.drop t.pos).take t.text.length :=
  node_positions ht h

/-- Without tokens: the character of the source at offset `x.pos` is the first character of
the node's text. -/
theorem node_first_char (ht : tokenize s = some ts) (h : parse tol skip s = .ok es) :
    ∀ x ∈ subExprsL es, 0 ≤ x.pos → ser x ≠ [] → s[x.pos.toNat]? = (ser x).head? := by
  intro x hx h0 hne
  obtain ⟨t, htm, hp, hpre, hoff⟩ := node_positions_nonempty ht h x hx h0 hne
  have htne := token_nonempty ht t htm
  have hpos : x.pos.toNat = t.pos := by omega
  rw [hpos]
  obtain ⟨u, hu⟩ := isPrefix_iff.1 hpre
  cases htx : t.text with
  | nil => exact absurd htx htne
  | cons c r =>
    rw [htx] at hu hoff
    rw [hu]
    simp only [List.cons_append, List.head?_cons]
    cases hd : s.drop t.pos with
    | nil => rw [hd] at hoff; simp at hoff
    | cons a l =>
      rw [hd] at hoff
      simp only [List.length_cons, List.take_succ_cons, List.cons.injEq] at hoff
      have h1 : (s.drop t.pos)[0]? = some a := by rw [hd]; rfl
      rw [List.getElem?_drop] at h1
      rw [← hoff.1] at h1
      simpa using h1

/-! ## Non-vacuity -/

/-- `\a{\b}[c]$x$` -/
def exDoc : Str := [92, 97, 123, 92, 98, 125, 91, 99, 93, 36, 120, 36]

def exToks : List Tok :=
  [⟨[92], 0, .Escape⟩, ⟨[97], 1, .CommandName⟩, ⟨[123], 2, .GroupBegin⟩, ⟨[92], 3, .Escape⟩,
   ⟨[98], 4, .CommandName⟩, ⟨[125], 5, .GroupEnd⟩, ⟨[91], 6, .BracketBegin⟩, ⟨[99], 7, .Text⟩,
   ⟨[93], 8, .BracketEnd⟩, ⟨[36], 9, .MathSwitch⟩, ⟨[120], 10, .Text⟩, ⟨[36], 11, .MathSwitch⟩]

def exTree : List Expr :=
  [.cmd [97] [.group .brace [.cmd [98] [] [] 3] 2, .group .bracket [.text [99] 7] 6] [] 0,
   .math .dollar [.text [120] 10] 9]

theorem exDoc_tokens : tokenize exDoc = some exToks := by decide +kernel
theorem exDoc_parse : parse false [] exDoc = .ok exTree := by
  unfold parse
  rw [exDoc_tokens]
  rfl
example : subExprsL exTree =
    [.cmd [97] [.group .brace [.cmd [98] [] [] 3] 2, .group .bracket [.text [99] 7] 6] [] 0,
     .group .brace [.cmd [98] [] [] 3] 2, .cmd [98] [] [] 3,
     .group .bracket [.text [99] 7] 6, .text [99] 7,
     .math .dollar [.text [120] 10] 9, .text [120] 10] := by rfl
example : (subExprsL exTree).map Expr.pos = [0, 2, 3, 6, 7, 9, 10] := by rfl
/-- the source characters at the recorded offsets: `\ { \ [ c $ x` -/
example : ((subExprsL exTree).map fun x => exDoc[x.pos.toNat]?) =
    [some 92, some 123, some 92, some 91, some 99, some 36, some 120] := by rfl
example : ((subExprsL exTree).map fun x => (ser x).head?) =
    [some 92, some 123, some 92, some 91, some 99, some 36, some 120] := by rfl

/-- a bare token as mandatory argument: the made-up group and its text carry `-1` -/
example : parse false [] [92, 100, 101, 102, 92, 97, 32, 98] = .ok
    [.cmd [100, 101, 102] [.cmd [97] [] [] 4, .group .brace [.text [32, 98] (-1)] (-1)] [] 0] := by
  rfl

/-- `\begin{verbatim}$x\end{verbatim}` -/
def exVerb : Str :=
  [92, 98, 101, 103, 105, 110, 123, 118, 101, 114, 98, 97, 116, 105, 109, 125, 36, 120,
   92, 101, 110, 100, 123, 118, 101, 114, 98, 97, 116, 105, 109, 125]

def exVerbToks : List Tok :=
  [⟨[92], 0, .Escape⟩, ⟨[98, 101, 103, 105, 110], 1, .CommandName⟩, ⟨[123], 6, .GroupBegin⟩,
   ⟨[118, 101, 114, 98, 97, 116, 105, 109], 7, .Text⟩, ⟨[125], 15, .GroupEnd⟩,
   ⟨[36], 16, .MathSwitch⟩, ⟨[120], 17, .Text⟩, ⟨[92], 18, .Escape⟩,
   ⟨[101, 110, 100], 19, .CommandName⟩, ⟨[123], 22, .GroupBegin⟩,
   ⟨[118, 101, 114, 98, 97, 116, 105, 109], 23, .Text⟩, ⟨[125], 31, .GroupEnd⟩]

theorem exVerb_tokens : tokenize exVerb = some exVerbToks := by decide +kernel

/-- The text child of a verbatim-like environment is several tokens (`$`, `x`), recorded at
the first. -/
example : parse false [] exVerb = .ok
    [.nenv [118, 101, 114, 98, 97, 116, 105, 109] [] [.text [36, 120] 16] 0] := by
  unfold parse
  rw [exVerb_tokens]
  rfl

/-- `\begin{verbatim}\end{verbatim}` -/
def exEmpty : Str :=
  [92, 98, 101, 103, 105, 110, 123, 118, 101, 114, 98, 97, 116, 105, 109, 125,
   92, 101, 110, 100, 123, 118, 101, 114, 98, 97, 116, 105, 109, 125]

def exEmptyToks : List Tok :=
  [⟨[92], 0, .Escape⟩, ⟨[98, 101, 103, 105, 110], 1, .CommandName⟩, ⟨[123], 6, .GroupBegin⟩,
   ⟨[118, 101, 114, 98, 97, 116, 105, 109], 7, .Text⟩, ⟨[125], 15, .GroupEnd⟩,
   ⟨[92], 16, .Escape⟩, ⟨[101, 110, 100], 17, .CommandName⟩, ⟨[123], 20, .GroupBegin⟩,
   ⟨[118, 101, 114, 98, 97, 116, 105, 109], 21, .Text⟩, ⟨[125], 29, .GroupEnd⟩]

def exEmptyTree : List Expr := [.nenv [118, 101, 114, 98, 97, 116, 105, 109] [] [.text [] 16] 0]

theorem exEmpty_tokens : tokenize exEmpty = some exEmptyToks := by decide +kernel

theorem exEmpty_parse : parse false [] exEmpty = .ok exEmptyTree := by
  unfold parse
  rw [exEmpty_tokens]
  rfl

/-- The statement without the `ser x = []` case is false: the empty text child of
`\begin{verbatim}\end{verbatim}` is recorded at offset 16, where the source carries the `\`
of `\end`. -/
theorem intended_statement_false :
    ∃ (s : Str) (ts : List Tok) (es : List Expr),
      (∀ c ∈ s, isIgnored (catOf c) = false) ∧ tokenize s = some ts ∧
      parse false [] s = .ok es ∧
      ¬ ∀ x ∈ subExprsL es, 0 ≤ x.pos → ∃ t ∈ ts, (t.pos : Int) = x.pos ∧
          isPrefix t.text (ser x) = true := by
  have ht := exEmpty_tokens
  refine ⟨exEmpty, exEmptyToks, exEmptyTree, by decide +kernel, ht, exEmpty_parse, ?_⟩
  intro hall
  obtain ⟨t, htm, _, hpre⟩ := hall (.text [] 16) (by simp [exEmptyTree, subExprsL, subExprs])
    (by decide)
  have hne := token_nonempty ht t htm
  cases htx : t.text with
  | nil => exact hne htx
  | cons c r => rw [htx] at hpre; simp [ser, isPrefix] at hpre

end TexSoup.C13
