import TexSoupProofs.NavPathLemmas
/-!
# C04 - Navigation views of a node are mutually consistent

"For every node of a parsed document: `contents` is the node's complete content list
(`expr.all`) without whitespace-only text, `children` is `contents` without text, iteration and
indexing follow `contents`, `descendants` is exactly the transitive closure of `contents`
(every node once), `text` lists the non-blank text leaves in document order, and at the root
the complete content list concatenates to the whole document. The `parent` of every node
reached through any of these views is the node it was reached from, so walking parents from
any descendant ends at the root."

All theorems hold for every tree (no bound on size or depth). The root `[tex]` is
`rootWrap es`; `descRoot es = descOf (rootWrap es)` (`descRoot_eq_wrap`), so every statement
about a node is also a statement about the root. Statements that compare a path-annotated
view with the plain view need `Expr.flatArgs`: no argument has arguments of its own (true of
all trees the parser builds: arguments are groups or bare `TexCmd(name)`).
-/
namespace TexSoup.C04
open TexSoup

/-- a small tree: `\begin{i}[ \b]⏎\it A$B${C}\end{i}` -/
def sample : Expr :=
  .nenv [105] [.group .bracket [.text [32] 10, .cmd [98] [] [] 11] 9]
    [.text [10] 14,
     .cmd [105, 116] [] [.text [65] 18, .math .dollar [.text [66] 20] 19] 15,
     .group .brace [.text [67] 23] 22] 0

/-! ## `contents`, `children`, iteration, indexing -/

/-- `contents` is `expr.all` without whitespace-only text. -/
theorem contents_eq (e : Expr) : contentsOf e = (allOf e).filter (fun x => !x.isBlankText) := rfl

/-- `expr.all`: the `contents` of every argument, then `_contents`. -/
theorem all_eq (e : Expr) : allOf e = e.args.flatMap contentsOf ++ e.body := by
  rw [allOf_eq, argsContents_eq]

/-- `children` is `contents` without text. -/
theorem children_eq (e : Expr) : childrenOf e = (contentsOf e).filter (fun x => !x.isText) := rfl

/-- iteration follows `contents` -/
theorem iter_eq (e : Expr) : nodeIter e = contentsOf e := rfl

/-- indexing follows `contents` -/
theorem getitem_eq (e : Expr) (i : Nat) : nodeGetItem e i = (contentsOf e)[i]? := rfl

/-- The step-annotated `contents` is `contents`. -/
theorem contents_map_snd {e : Expr} (h : e.flatArgs = true) :
    (contentsP e).map Prod.snd = contentsOf e :=
  contentsP_map_snd (fun _ ha => (flatArgs_args h ha).1)

/-- `contentsP e` lists exactly the non-blank nodes one step below `e`, each step once. -/
theorem contents_steps (e : Expr) :
    (∀ st x, (st, x) ∈ contentsP e ↔ stepGet e st = some x ∧ x.isBlankText = false) ∧
      ((contentsP e).map Prod.fst).Nodup :=
  ⟨fun _ _ => mem_contentsP, contentsP_nodup e⟩

example : contentsOf sample =
    [.cmd [98] [] [] 11,
     .cmd [105, 116] [] [.text [65] 18, .math .dollar [.text [66] 20] 19] 15,
     .group .brace [.text [67] 23] 22] := rfl
example : (contentsP sample).map Prod.fst = [.arg 0 1, .body 1, .body 2] := rfl
example : sample.flatArgs = true := rfl

/-! ## `descendants` -/

/-- The Python definition: `chain(self.contents, *[c.descendants for c in self.children])`. -/
theorem descendants_unfold (e : Expr) :
    descOf e = contentsOf e ++ (childrenOf e).flatMap descOf := descOf_eq_children e

/-- `closure` is the pre-order transitive closure of `contents`. -/
theorem closure_unfold (e : Expr) :
    closure e = (contentsOf e).flatMap (fun x => x :: closure x) := closure_eq e

/-- `descendants` is the transitive closure of `contents`, up to order (`descendants` lists
the contents of a node before going deeper, `closure` is pre-order). -/
theorem descendants_closure (e : Expr) : (descOf e).Perm (closure e) := desc_perm_closure e

/-- the same at the root -/
theorem descendants_closure_root (es : List Expr) : (descRoot es).Perm (closureRoot es) :=
  descRoot_perm_closure es

/-- with paths -/
theorem descendants_closure_paths (e : Expr) : (descP [] e).Perm (closureP [] e) :=
  descP_perm_closureP [] e

/-- Every node once: no path occurs twice among the descendants, and the node listed with a
path is the node at that path. -/
theorem descendants_once (e : Expr) :
    ((descP [] e).map Prod.fst).Nodup ∧ ∀ p x, (p, x) ∈ descP [] e → getAt e p = some x :=
  ⟨descP_nodup e, fun _ _ h => (mem_descP_iff.1 h).2.1⟩

/-- None missing, none spurious: the descendants are exactly the non-blank nodes at the
non-empty paths below `e` (a path cannot pass through text, so every node on the way is a
command or environment). -/
theorem descendants_complete (e : Expr) (p : Path) (x : Expr) :
    (p, x) ∈ descP [] e ↔ p ≠ [] ∧ getAt e p = some x ∧ x.isBlankText = false := mem_descP_iff

/-- The annotated view is the plain view. -/
theorem desc_map_snd {e : Expr} (h : e.flatArgs = true) : (descP [] e).map Prod.snd = descOf e :=
  descP_map_snd h []

/-- the same at the root -/
theorem desc_map_snd_root {es : List Expr} (h : flatArgsL es = true) :
    (descRootP es).map Prod.snd = descRoot es := descRootP_map_snd h

example : descOf sample =
    [.cmd [98] [] [] 11,
     .cmd [105, 116] [] [.text [65] 18, .math .dollar [.text [66] 20] 19] 15,
     .group .brace [.text [67] 23] 22,
     .text [65] 18, .math .dollar [.text [66] 20] 19, .text [66] 20, .text [67] 23] := rfl
example : (descP [] sample).map Prod.fst =
    [[.arg 0 1], [.body 1], [.body 2], [.body 1, .body 0], [.body 1, .body 1],
     [.body 1, .body 1, .body 0], [.body 2, .body 0]] := rfl
example : closure sample =
    [.cmd [98] [] [] 11,
     .cmd [105, 116] [] [.text [65] 18, .math .dollar [.text [66] 20] 19] 15,
     .text [65] 18, .math .dollar [.text [66] 20] 19, .text [66] 20,
     .group .brace [.text [67] 23] 22, .text [67] 23] := rfl

/-! ## `parent` -/

/-- The parent of a descendant (the node at `path.dropLast`) is the node whose `contents`
produced it. -/
theorem parent_is_source {e x : Expr} {p q : Path} {st : Step} (h : (p, x) ∈ descP [] e)
    (hp : p = q ++ [st]) : ∃ y, getAt e q = some y ∧ (st, x) ∈ contentsP y ∧ parentPath p = q := by
  subst hp
  obtain ⟨y, h1, h2⟩ := parent_of_mem_descP h
  exact ⟨y, h1, h2, by simp [parentPath]⟩

/-- Every descendant has a parent: its path is not empty. -/
theorem descendant_has_parent {e x : Expr} {p : Path} (h : (p, x) ∈ descP [] e) :
    ∃ q st, p = q ++ [st] := by
  have := (mem_descP_iff.1 h).1
  exact ⟨p.dropLast, p.getLast this, (List.dropLast_concat_getLast this).symm⟩

/-- Walking parents from a descendant stays inside the tree and, after as many steps as the
path is long, ends at the node the view was taken from (for `descRootP`: the root). -/
theorem parent_chain_reaches_root {e x : Expr} {p : Path} (h : (p, x) ∈ descP [] e) :
    ancestorPath p.length p = [] ∧ getAt e (ancestorPath p.length p) = some e ∧
      ∀ k, ∃ y, getAt e (ancestorPath k p) = some y := by
  refine ⟨ancestorPath_length p, by rw [ancestorPath_length]; rfl, fun k => ?_⟩
  rw [ancestorPath_eq_take]
  obtain ⟨y, hy, _⟩ := nav_getAt_take (mem_descP_iff.1 h).2.1 (p.length - k)
  exact ⟨y, hy⟩

example : ([.body 1, .body 1, .body 0], Expr.text [66] 20) ∈ descP [] sample :=
  (descendants_complete _ _ _).2 ⟨by simp, rfl, rfl⟩
example : getAt sample [.body 1, .body 1] = some (.math .dollar [.text [66] 20] 19) := rfl
example : ancestorPath 2 [Step.body 1, .body 1, .body 0] = [.body 1] := rfl

/-! ## `text` -/

/-- `text` lists the non-blank text leaves (`leaves`: arguments, then body, as `str()` does). -/
theorem text_in_document_order (e : Expr) :
    textOf e = (leaves e).filter (fun x => !x.isBlankText) := textOf_eq_filter e

/-- the same at the root -/
theorem text_in_document_order_root (es : List Expr) :
    textRoot es = (leavesRoot es).filter (fun x => !x.isBlankText) := textList_eq_filter es

/-- `leaves` is in document order: the leaves' text is a subsequence of `str(expr)`. -/
theorem leaves_in_ser_order (e : Expr) : ((leaves e).flatMap ser).Sublist (ser e) :=
  leaves_sublist_ser e

/-- the same at the root -/
theorem leaves_in_ser_order_root (es : List Expr) :
    ((leavesRoot es).flatMap ser).Sublist (serL es) := leavesList_sublist_serL es

/-- The Python generator: each element of `contents` itself if it is text, else its `text`. -/
theorem text_unfold (e : Expr) :
    textOf e = (contentsOf e).flatMap (fun x => if x.isText then [x] else textOf x) := textOf_eq e

/-- `text` is the text part of the pre-order closure of `contents`. -/
theorem text_eq_closure_text (e : Expr) : textOf e = (closure e).filter (·.isText) :=
  textOf_eq_closure_filter e

example : textOf sample = [.text [65] 18, .text [66] 20, .text [67] 23] := rfl
example : leaves sample =
    [.text [32] 10, .text [10] 14, .text [65] 18, .text [66] 20, .text [67] 23] := rfl

/-! ## The root -/

/-- At the root the complete content list is the stored list, and it concatenates to the
whole document. -/
theorem root_all_concat (es : List Expr) :
    allOf (rootWrap es) = es ∧ serL es = (es.map ser).flatten :=
  ⟨by simp [rootWrap, allOf, argsContents], serL_eq_flatten es⟩

/-- The descendants of the root, with paths: exactly the non-blank nodes of the document,
each at its own path, no path twice. -/
theorem descendants_root (es : List Expr) :
    (∀ p x, (p, x) ∈ descRootP es ↔ p ≠ [] ∧ getAtRoot es p = some x ∧ x.isBlankText = false) ∧
      ((descRootP es).map Prod.fst).Nodup :=
  ⟨fun _ _ => mem_descP_iff, descP_nodup _⟩

/-- The parent of a descendant of the root is the node (or the root itself, `q = []`) whose
`contents` produced it. -/
theorem parent_is_source_root {es : List Expr} {x : Expr} {q : Path} {st : Step}
    (h : (q ++ [st], x) ∈ descRootP es) :
    ∃ y, getAtRoot es q = some y ∧ (st, x) ∈ contentsP y :=
  parent_of_mem_descP h

/-- `contents` of the root -/
theorem root_contents (es : List Expr) : contentsOf (rootWrap es) = dropBlank es :=
  contentsOf_rootWrap es

/-- `descendants` of the root is `descendants` of the root node -/
theorem root_descendants (es : List Expr) : descRoot es = descOf (rootWrap es) :=
  descRoot_eq_wrap es

example : serL [sample] = [92, 98, 101, 103, 105, 110, 123, 105, 125, 91, 32, 92, 98, 93, 10, 92,
    105, 116, 65, 36, 66, 36, 123, 67, 125, 92, 101, 110, 100, 123, 105, 125] := rfl

end TexSoup.C04
