import TexSoupProofs.EditLemmasSearch
/-!
# C14 – renaming, `.string =` and `.args =` change exactly their part of the document

"Renaming a command or environment, assigning the string of a single-argument command or of
a text-only environment, or assigning/reordering/slicing a node's argument list changes
exactly that part of the serialised document (both \begin and \end for an environment) and
nothing else. The change is visible to subsequent searches, and re-parsing the new text
yields a tree that shows the same change."

The target is the node at a non-root path `p` (`getAtRoot es p = some y`), `k` its offset in
the document text (`offAtRoot es p = some k`). Definitions are in
`TexSoupProofs/EditLemmas*.lean` (`argsPre`, `stringSpan`, `Expr.head`, `plainName`).

-- re-parse clause: carried by the correspondence/oracle, see DESIGN.md
(it needs the completeness of the parser, which is not part of this package).
-/
namespace TexSoup.C14
open TexSoup TexSoup.Edit

-- re-parse clause: carried by the correspondence/oracle, see DESIGN.md

/-- `node.name = new` on a command: exactly the name span (after the backslash) is
replaced; the node at `p` is the same command under the new name. -/
theorem rename_splice_cmd (es : List Expr) (p : Path) (old new : Str) (a b : List Expr) (pos : Int)
    (hp : p ≠ []) (hy : getAtRoot es p = some (.cmd old a b pos)) :
    ∃ k, offAtRoot es p = some k ∧
      getAtRoot (applyEdit es (.rename p new)) p = some (.cmd new a b pos) ∧
      serL (applyEdit es (.rename p new)) =
        (serL es).take (k + 1) ++ (new ++ (serL es).drop (k + 1 + old.length)) :=
  rename_cmd_core hp hy

example : ∃ es p old a b pos, p ≠ [] ∧ getAtRoot es p = some (.cmd old a b pos) :=
  ⟨[.cmd [120] [] [] 0], [.body 0], _, _, _, _, by simp, rfl⟩

/-- `node.name = new` on a named environment: exactly the two name spans (inside
`\begin{..}` and inside `\end{..}`) are replaced, by the same text; the `}`, the arguments,
the contents and `\end{` between them (`1 + |args| + |body| + 5` characters) stay. -/
theorem rename_splice_env (es : List Expr) (p : Path) (old new : Str) (a b : List Expr) (pos : Int)
    (hp : p ≠ []) (hy : getAtRoot es p = some (.nenv old a b pos)) :
    ∃ k, offAtRoot es p = some k ∧
      getAtRoot (applyEdit es (.rename p new)) p = some (.nenv new a b pos) ∧
      serL (applyEdit es (.rename p new)) =
        (serL es).take (k + 7) ++ (new ++
          (((serL es).drop (k + 7 + old.length)).take (1 + (serL a).length + (serL b).length + 5) ++
          (new ++ (serL es).drop
            (k + 7 + old.length + (1 + (serL a).length + (serL b).length + 5) + old.length)))) :=
  rename_env_core hp hy

example : ∃ es p old a b pos, p ≠ [] ∧ getAtRoot es p = some (.nenv old a b pos) :=
  ⟨[.nenv [97] [] [.text [116] 9] 0], [.body 0], _, _, _, _, by simp, rfl⟩

/-- `node.string = s`: for a command with exactly one argument the contents of that
argument, for an environment whose filtered contents are exactly one text its own contents
(`stringSpan y = some (o, len)`: relative offset and length of that span), are replaced by
`s`; nothing else changes. -/
theorem setString_splice (es : List Expr) (p : Path) (y : Expr) (o len : Nat) (s : Str)
    (hp : p ≠ []) (hy : getAtRoot es p = some y) (hs : stringSpan y = some (o, len)) :
    ∃ k, offAtRoot es p = some k ∧
      serL (applyEdit es (.setString p s)) =
        (serL es).take (k + o) ++ (s ++ (serL es).drop (k + o + len)) :=
  setString_core s hp hy hs

example : ∃ es p y o len, p ≠ [] ∧ getAtRoot es p = some y ∧ stringSpan y = some (o, len) :=
  ⟨[.cmd [120] [.group .brace [.text [97] 3] 2] [] 0], [.body 0], _, 3, 1, by simp, rfl, by decide⟩

/-- `node.args = TexArgs(as)` on a command or named environment: exactly the span of the
arguments (after the name, resp. after `\begin{name}`) is replaced by the text of the new
arguments. -/
theorem setArgs_splice (es : List Expr) (p : Path) (y : Expr) (as : List Expr)
    (hp : p ≠ []) (hy : getAtRoot es p = some y) (ha : y.hasArgs = true) :
    ∃ k, offAtRoot es p = some k ∧
      getAtRoot (applyEdit es (.setArgs p as)) p = some (y.setArgs as) ∧
      serL (applyEdit es (.setArgs p as)) =
        (serL es).take (k + (argsPre y).length) ++
          (serL as ++ (serL es).drop (k + (argsPre y).length + (serL y.args).length)) :=
  setArgs_core as hp hy ha

example : ∃ es p y, p ≠ [] ∧ getAtRoot es p = some y ∧ y.hasArgs = true :=
  ⟨[.cmd [120] [.group .brace [.text [97] 3] 2] [] 0], [.body 0], _, by simp, rfl, rfl⟩

/-- "... and nothing else": after any of the three edits (successful or refused) every path
that leaves the path to the target leads to the same node as before. -/
theorem node_edit_preserves_others (es : List Expr) (p r : Path) (hp : p ≠ [])
    (h1 : ¬ p <+: r) (h2 : ¬ r <+: p) (n s : Str) (as : List Expr) :
    getAtRoot (applyEdit es (.rename p n)) r = getAtRoot es r ∧
    getAtRoot (applyEdit es (.setString p s)) r = getAtRoot es r ∧
    getAtRoot (applyEdit es (.setArgs p as)) r = getAtRoot es r :=
  ⟨node_edit_paths hp (applyEditE_rename n hp) h1 h2,
   node_edit_paths hp (applyEditE_setString s hp) h1 h2,
   node_edit_paths hp (applyEditE_setArgs as hp) h1 h2⟩

example : ∃ (p r : Path), p ≠ [] ∧ ¬ p <+: r ∧ ¬ r <+: p :=
  ⟨[.body 0], [.body 1], by simp, by decide, by decide⟩

/-- Renaming keeps everything below the renamed node (its arguments and contents). -/
theorem rename_preserves_below (es : List Expr) (p : Path) (n : Str) (y y' : Expr) (hp : p ≠ [])
    (hy : getAtRoot es p = some y) (hr : renameE n y = some y') (s : Step) (r : Path) :
    getAtRoot (applyEdit es (.rename p n)) (p ++ s :: r) = getAtRoot es (p ++ s :: r) :=
  rename_below hp hy hr s r

example : ∃ es p n y y', p ≠ [] ∧ getAtRoot es p = some y ∧ renameE n y = some y' :=
  ⟨[.cmd [120] [] [] 0], [.body 0], [121], _, _, by simp, rfl, rfl⟩

/-- The change is visible to subsequent searches. For plain names (`find_all('name')`, no
`{`/`[`), comparing results through `Expr.head` (kind, name, position – the ancestors of the
renamed node are results too and contain it): the results for the new name are the old ones
plus exactly the renamed node, at its place in the traversal order; the results for the old
name are the old ones minus exactly it. -/
theorem rename_search (es : List Expr) (p : Path) (y y' : Expr) (old new : Str)
    (hp : p ≠ []) (hy : getAtRoot es p = some y) (hr : renameE new y = some y')
    (hn : y.name = old) (hold : plainName old = true) (hnew : plainName new = true)
    (hne : old ≠ new) :
    getAtRoot (applyEdit es (.rename p new)) p = some y' ∧
    ∃ F1 F2 G1 G2,
      (findAllRoot (.name new) es).map Expr.head = F1 ++ F2 ∧
      (findAllRoot (.name new) (applyEdit es (.rename p new))).map Expr.head
        = F1 ++ y'.head :: F2 ∧
      (findAllRoot (.name old) es).map Expr.head = G1 ++ y.head :: G2 ∧
      (findAllRoot (.name old) (applyEdit es (.rename p new))).map Expr.head = G1 ++ G2 :=
  rename_search_core hp hy hr hn hold hnew hne

example : ∃ es p y y' old new, p ≠ [] ∧ getAtRoot es p = some y ∧ renameE new y = some y' ∧
    y.name = old ∧ plainName old = true ∧ plainName new = true ∧ old ≠ new :=
  ⟨[.cmd [120] [] [] 0], [.body 0], _, _, [120], [121], by simp, rfl, rfl, rfl, by decide,
    by decide, by decide⟩

/-- `count`: one more result for the new name, one less for the old name. -/
theorem rename_count (es : List Expr) (p : Path) (y y' : Expr) (old new : Str)
    (hp : p ≠ []) (hy : getAtRoot es p = some y) (hr : renameE new y = some y')
    (hn : y.name = old) (hold : plainName old = true) (hnew : plainName new = true)
    (hne : old ≠ new) :
    (findAllRoot (.name new) (applyEdit es (.rename p new))).length
      = (findAllRoot (.name new) es).length + 1 ∧
    (findAllRoot (.name old) (applyEdit es (.rename p new))).length + 1
      = (findAllRoot (.name old) es).length := by
  obtain ⟨_, F1, F2, G1, G2, h1, h2, h3, h4⟩ := rename_search_core hp hy hr hn hold hnew hne
  have e1 := congrArg List.length h1
  have e2 := congrArg List.length h2
  have e3 := congrArg List.length h3
  have e4 := congrArg List.length h4
  simp only [List.length_map, List.length_append, List.length_cons] at e1 e2 e3 e4
  omega

example : (findAllRoot (.name [121]) (applyEdit [.cmd [120] [] [] 0] (.rename [.body 0] [121]))).length = 1 := by
  decide

end TexSoup.C14
