import TexSoupProofs.Complete.Main
/-!
# C11 for documents of the grammar – verbatim-like environments are opaque

For every environment whose name is in the skip list *in force* – a built-in name or a name the
user passed as `skip_envs`, they are treated alike (`skip_list_in_force`) – the raw tokens
between `\begin{name}…` and the first `\end{name}` become one text child, whatever they are
(`verbatim_is_one_text`); this holds at top level and inside environment bodies, where the list
is handed on (`WF` of `env` passes `skip` to its body); inside groups, arguments, math regions
and items the list is empty and no environment is opaque (`no_skip_list_no_verbatim`). The same
tokens under a name that is *not* in the list are read by the ordinary environment rule: the
body is interpreted (`other_name_is_interpreted`, and the two examples at the end on the very
same token list).
-/
namespace TexSoup.C11G
open TexSoup TexSoup.Gram

/-- **Opacity.** One node, one text child: the raw body. -/
theorem verbatim_is_one_text (skip : List Str) (tol : Bool) (m : Mode) (esc bgn : Tok) (nm : NameArg)
    (a2 a3 a4 : List Arg) (vb e5 rest : List Tok) (f : Nat)
    (hwf : WF skip m (win rest) (.venv esc bgn nm a2 a3 a4 vb e5) = true)
    (hf : 3 * (toks (.venv esc bgn nm a2 a3 a4 vb e5) ++ rest).length + 1 ≤ f) :
    readExpr f skip tol m (toks (.venv esc bgn nm a2 a3 a4 vb e5) ++ rest) =
      .ok (.nenv (strip nm.nt.text) (treesA .brace a2 ++ (treesA .bracket a3 ++ treesA .brace a4))
        [.text (flat vb) (headPos (vb ++ e5))] esc.pos, rest) := by
  simpa [tree] using readExpr_complete _ skip tol m rest f hwf hf

theorem memStr_append (n : Str) (a b : List Str) : memStr n (a ++ b) = (memStr n a || memStr n b) := by
  induction a with
  | nil => simp [memStr]
  | cons x xs ih => simp [memStr, ih, Bool.or_assoc]

/-- Built-in and user-supplied names are in force alike: `parse` runs the reader with
`Tables.skipEnvNames ++ skip`. -/
theorem skip_list_in_force (name : Str) (user : List Str) :
    memStr name (Tables.skipEnvNames ++ user) = (memStr name Tables.skipEnvNames || memStr name user) :=
  memStr_append name _ _

/-- Well-formedness of a verbatim-like environment asks for nothing about the body but that
`\end{name}` does not start earlier – in particular nothing has to balance. -/
theorem verbatim_wf_iff (skip : List Str) (m : Mode) (nx : List Tok) (esc bgn : Tok) (nm : NameArg)
    (vb e5 : List Tok) :
    WF skip m nx (.venv esc bgn nm [] [] [] vb e5) =
      (esc.cat == .Escape && bgn.text == sBegin && m != .special && nm.ok
        && runOK (cmdSig (-1) (-1) bgn.text) [] [nm.toArg] [] [] (win (vb ++ e5))
        && memStr (strip nm.nt.text) skip && e5.length == 5 && flat e5 == endMarker (strip nm.nt.text)
        && noEarly (endMarker (strip nm.nt.text)) e5 vb) := by
  simp [WF, WFa]

/-- Where no skip list is in force (groups, arguments, math regions, items: the reader passes
`[]`) nothing is opaque. -/
theorem no_skip_list_no_verbatim (m : Mode) (nx : List Tok) (esc bgn : Tok) (nm : NameArg)
    (a2 a3 a4 : List Arg) (vb e5 : List Tok) : WF [] m nx (.venv esc bgn nm a2 a3 a4 vb e5) = false := by
  simp [WF, memStr]

/-- A name that is not in the list: the ordinary environment rule, the body is interpreted. -/
theorem other_name_is_interpreted (skip : List Str) (tol : Bool) (m : Mode) (esc bgn : Tok) (nm : NameArg)
    (a2 a3 a4 : List Arg) (b : List Elem) (esc2 en : Tok) (nm2 : NameArg) (rest : List Tok) (f : Nat)
    (hwf : WF skip m (win rest) (.env esc bgn nm a2 a3 a4 b esc2 en nm2) = true)
    (hf : 3 * (toks (.env esc bgn nm a2 a3 a4 b esc2 en nm2) ++ rest).length + 1 ≤ f) :
    memStr (strip nm.nt.text) skip = false ∧
    readExpr f skip tol m (toks (.env esc bgn nm a2 a3 a4 b esc2 en nm2) ++ rest) =
      .ok (.nenv (strip nm.nt.text) (treesA .brace a2 ++ (treesA .bracket a3 ++ treesA .brace a4))
        (trees b) esc.pos, rest) := by
  refine ⟨?_, by simpa [tree] using readExpr_complete _ skip tol m rest f hwf hf⟩
  simp only [WF, Bool.and_eq_true, Bool.not_eq_true'] at hwf
  exact hwf.1.1.1.1.1.2

/-! ## Non-vacuity: one token list, two readings -/

private def t (s : Str) (p : Nat) (c : TC) : Tok := ⟨s, p, c⟩
private def sFoo : Str := [102, 111, 111]

/-- `\begin{foo}$x{\end{foo}` as an opaque environment (`foo` passed as a skip name) … -/
def asVerbatim : Doc :=
  [.venv (t [92] 0 .Escape) (t sBegin 1 .CommandName)
     ⟨none, t [123] 6 .GroupBegin, t sFoo 7 .Text, t [125] 10 .GroupEnd⟩ [] [] []
     [t [36] 11 .MathSwitch, t [120] 12 .Text, t [123] 13 .GroupBegin]
     [t [92] 14 .Escape, t sEnd 15 .CommandName, t [123] 18 .GroupBegin, t sFoo 19 .Text,
      t [125] 22 .GroupEnd]]

example : WFD (Tables.skipEnvNames ++ [sFoo]) asVerbatim = true := by decide
example : WFD Tables.skipEnvNames asVerbatim = false := by decide
example : treeD asVerbatim = [.nenv sFoo [] [.text [36, 120, 123] 11] 0] := by rfl

/-- `\begin{foo}$x$\end{foo}`: the same name, not in the list – an ordinary environment with a
math region inside; as an opaque one (same tokens) the body is the text `$x$`. -/
def asEnv : Doc :=
  [.env (t [92] 0 .Escape) (t sBegin 1 .CommandName)
     ⟨none, t [123] 6 .GroupBegin, t sFoo 7 .Text, t [125] 10 .GroupEnd⟩ [] [] []
     [.math .dollar (t [36] 11 .MathSwitch) [.leaf (t [120] 12 .Text)] (t [36] 13 .MathSwitch)]
     (t [92] 14 .Escape) (t sEnd 15 .CommandName)
     ⟨none, t [123] 18 .GroupBegin, t sFoo 19 .Text, t [125] 22 .GroupEnd⟩]
def asVerbatim' : Doc :=
  [.venv (t [92] 0 .Escape) (t sBegin 1 .CommandName)
     ⟨none, t [123] 6 .GroupBegin, t sFoo 7 .Text, t [125] 10 .GroupEnd⟩ [] [] []
     [t [36] 11 .MathSwitch, t [120] 12 .Text, t [36] 13 .MathSwitch]
     [t [92] 14 .Escape, t sEnd 15 .CommandName, t [123] 18 .GroupBegin, t sFoo 19 .Text,
      t [125] 22 .GroupEnd]]

example : toksD asEnv = toksD asVerbatim' := by decide
example : WFD Tables.skipEnvNames asEnv = true ∧ WFD (Tables.skipEnvNames ++ [sFoo]) asEnv = false ∧
    WFD (Tables.skipEnvNames ++ [sFoo]) asVerbatim' = true ∧ WFD Tables.skipEnvNames asVerbatim' = false := by
  decide
example : treeD asEnv = [.nenv sFoo [] [.math .dollar [.text [120] 12] 11] 0] := by rfl
example : treeD asVerbatim' = [.nenv sFoo [] [.text [36, 120, 36] 11] 0] := by rfl

/-- Inside an environment body the list is still in force: `\begin{a}\begin{verbatim}}\end{verbatim}\end{a}`
(an opening brace at this place would be taken as an argument of `\begin{verbatim}` – `runOK`). -/
def nested : Doc :=
  [.env (t [92] 0 .Escape) (t sBegin 1 .CommandName)
     ⟨none, t [123] 6 .GroupBegin, t [97] 7 .Text, t [125] 8 .GroupEnd⟩ [] [] []
     [.venv (t [92] 9 .Escape) (t sBegin 10 .CommandName)
        ⟨none, t [123] 15 .GroupBegin, t [118, 101, 114, 98, 97, 116, 105, 109] 16 .Text, t [125] 24 .GroupEnd⟩
        [] [] [] [t [125] 25 .GroupEnd]
        [t [92] 26 .Escape, t sEnd 27 .CommandName, t [123] 30 .GroupBegin,
         t [118, 101, 114, 98, 97, 116, 105, 109] 31 .Text, t [125] 39 .GroupEnd]]
     (t [92] 40 .Escape) (t sEnd 41 .CommandName)
     ⟨none, t [123] 44 .GroupBegin, t [97] 45 .Text, t [125] 46 .GroupEnd⟩]
example : WFD Tables.skipEnvNames nested = true := by decide
example : treeD nested =
    [.nenv [97] [] [.nenv [118, 101, 114, 98, 97, 116, 105, 109] [] [.text [125] 25] 9] 0] := by rfl
/-- … but not inside a group: `{\begin{verbatim}…}` there is an ordinary environment. -/
example : WFD Tables.skipEnvNames [.group (t [123] 0 .GroupBegin)
    [.venv (t [92] 9 .Escape) (t sBegin 10 .CommandName)
        ⟨none, t [123] 15 .GroupBegin, t [118, 101, 114, 98, 97, 116, 105, 109] 16 .Text, t [125] 24 .GroupEnd⟩
        [] [] [] [t [120] 25 .Text]
        [t [92] 26 .Escape, t sEnd 27 .CommandName, t [123] 30 .GroupBegin,
         t [118, 101, 114, 98, 97, 116, 105, 109] 31 .Text, t [125] 39 .GroupEnd]]
    (t [125] 40 .GroupEnd)] = false := by decide

end TexSoup.C11G
