import TexSoupProofs.Properties.C02
import TexSoupModel.Nav
/-!
# C12 for documents of the grammar – math regions and math environments

Each of the four regions `$..$`, `$$..$$`, `\(..\)`, `\[..\]` is one `math` node of its kind whose
body is the trees of the enclosed elements (`math_region_is_one_node`), whatever these are –
commands, groups, nested environments, not only leaf tokens; an environment whose name is in
`Tables.mathEnvNames` is one `nenv` node whose body is read in math mode
(`math_environment_is_one_node`, `math_environment_body_mode`). Inside, `[`, `]` and text with
parentheses are leaves that need no partner (`bracket_leaf_in_math`); zero-argument operators
absorb nothing (`C02.zero_arg_operator_absorbs_nothing`); commands are ordinary `cmd` nodes and
are found by a search of the tree (evaluated example at the end).
-/
namespace TexSoup.C12G
open TexSoup TexSoup.Gram

/-- One node per region, body = the enclosed elements. -/
theorem math_region_is_one_node (skip : List Str) (tol : Bool) (m : Mode) (k : MKind) (o c : Tok)
    (b : List Elem) (rest : List Tok) (f : Nat)
    (hwf : WF skip m (win rest) (.math k o b c) = true)
    (hf : 3 * (toks (.math k o b c) ++ rest).length + 1 ≤ f) :
    readExpr f skip tol m (o :: (toksS b ++ c :: rest)) = .ok (.math k (trees b) o.pos, rest) := by
  simpa [toks, tree] using readExpr_complete _ skip tol m rest f hwf hf

/-- What well-formedness of a region asks: opener and closer of the kind, and a body that is
well-formed *in math mode* in which no element starts with the closer. -/
theorem math_region_wf (skip : List Str) (m : Mode) (nx : List Tok) (k : MKind) (o c : Tok) (b : List Elem) :
    WF skip m nx (.math k o b c) =
      (mkindOfBegin o.cat == some k && c.cat == k.tokEnd && WFs [] .math (.mth k) [c] b) := by
  simp [WF]

/-- The body of an environment named in `Tables.mathEnvNames` is read in math mode. -/
theorem math_environment_body_mode (name : Str) (m : Mode)
    (h : memStr name Tables.mathEnvNames = true) : envMode name m = .math := by
  unfold envMode; rw [if_pos h]

/-- One `nenv` node, body = the enclosed elements. -/
theorem math_environment_is_one_node (skip : List Str) (tol : Bool) (m : Mode) (esc bgn : Tok)
    (nm : NameArg) (a2 a3 a4 : List Arg) (b : List Elem) (esc2 en : Tok) (nm2 : NameArg)
    (rest : List Tok) (f : Nat)
    (hwf : WF skip m (win rest) (.env esc bgn nm a2 a3 a4 b esc2 en nm2) = true)
    (hmath : memStr (strip nm.nt.text) Tables.mathEnvNames = true)
    (hf : 3 * (toks (.env esc bgn nm a2 a3 a4 b esc2 en nm2) ++ rest).length + 1 ≤ f) :
    WFs skip .math .env [esc2, en] b = true ∧
    readExpr f skip tol m (toks (.env esc bgn nm a2 a3 a4 b esc2 en nm2) ++ rest) =
      .ok (.nenv (strip nm.nt.text) (treesA .brace a2 ++ (treesA .bracket a3 ++ treesA .brace a4))
        (trees b) esc.pos, rest) := by
  refine ⟨?_, by simpa [tree] using readExpr_complete _ skip tol m rest f hwf hf⟩
  simp only [WF, Bool.and_eq_true] at hwf
  have := hwf.1.1.1.1.2
  rwa [math_environment_body_mode _ m hmath] at this

/-- `[` and `]` inside a math region are leaves; they need no partner, in any kind of region. -/
theorem bracket_leaf_in_math (k : MKind) (nx : List Tok) (t : Tok)
    (h : t.cat = .BracketBegin ∨ t.cat = .BracketEnd) :
    WF [] .math nx (.leaf t) = true ∧ startOK (.mth k) (.leaf t) = true := by
  rcases h with h | h <;> cases k <;> simp [WF, leafTok, startOK, firstTok, h, mkindOfBegin, MKind.tokEnd]

/-! ## Non-vacuity -/

private def t (s : Str) (p : Nat) (c : TC) : Tok := ⟨s, p, c⟩
private def sAlpha : Str := [97, 108, 112, 104, 97]
private def sEquation : Str := [101, 113, 117, 97, 116, 105, 111, 110]

/-- `${x}[\alpha \in y$` – a group, an unmatched bracket, a command, a zero-argument operator
followed by text. (`$\alpha[…` would *not* do: the bracket would be taken as the beginning of
an optional argument of `\alpha` – `runOK`.) -/
def exInline : Doc :=
  [.math .dollar (t [36] 0 .MathSwitch)
     [.group (t [123] 1 .GroupBegin) [.leaf (t [120] 2 .Text)] (t [125] 3 .GroupEnd),
      .leaf (t [91] 4 .BracketBegin),
      .cmd (t [92] 5 .Escape) (t sAlpha 6 .CommandName) [] [] [] [],
      .leaf (t [32] 11 .MergedSpacer),
      .cmd (t [92] 12 .Escape) (t [105, 110] 13 .CommandName) [] [] [] [],
      .leaf (t [32, 121] 15 .Text)]
     (t [36] 17 .MathSwitch)]

def srcInline : Str := [36, 123, 120, 125, 91, 92, 97, 108, 112, 104, 97, 32, 92, 105, 110, 32, 121, 36]

example : tokenize srcInline = some (toksD exInline) := by rfl
example : WFD Tables.skipEnvNames exInline = true := by decide
example : parse false [] srcInline =
    .ok [.math .dollar
      [.group .brace [.text [120] 2] 1, .text [91] 4, .cmd sAlpha [] [] 5, .text [32] 11,
       .cmd [105, 110] [] [] 12, .text [32, 121] 15] 0] :=
  C02.parse_complete false [] srcInline exInline (by rfl) (by decide)

/-- the command inside is found by a search of the tree -/
example : findAllRoot (.name sAlpha) (treeD exInline) = [.cmd sAlpha [] [] 5] := by rfl

/-- `\[x\]`, `\(x\)`, `$$x$$` -/
example : WFD [] [.math .displaymath (t [92, 91] 0 .DisplayMathGroupBegin) [.leaf (t [120] 2 .Text)]
      (t [92, 93] 3 .DisplayMathGroupEnd),
    .math .math (t [92, 40] 5 .MathGroupBegin) [.leaf (t [120] 7 .Text)] (t [92, 41] 8 .MathGroupEnd),
    .math .ddollar (t [36, 36] 10 .DisplayMathSwitch) [.leaf (t [120] 12 .Text)]
      (t [36, 36] 13 .DisplayMathSwitch)] = true := by decide

/-- `\begin{equation}\alpha\end{equation}` – and `\item` is not allowed in its body. -/
def exEq (body : List Elem) : Doc :=
  [.env (t [92] 0 .Escape) (t sBegin 1 .CommandName)
     ⟨none, t [123] 6 .GroupBegin, t sEquation 7 .Text, t [125] 15 .GroupEnd⟩ [] [] [] body
     (t [92] 22 .Escape) (t sEnd 23 .CommandName)
     ⟨none, t [123] 26 .GroupBegin, t sEquation 27 .Text, t [125] 35 .GroupEnd⟩]

example : WFD Tables.skipEnvNames
    (exEq [.cmd (t [92] 16 .Escape) (t sAlpha 17 .CommandName) [] [] [] []]) = true := by decide
example : treeD (exEq [.cmd (t [92] 16 .Escape) (t sAlpha 17 .CommandName) [] [] [] []]) =
    [.nenv sEquation [] [.cmd sAlpha [] [] 16] 0] := by rfl
example : WFD Tables.skipEnvNames
    (exEq [.item (t [92] 16 .Escape) (t sItem 17 .CommandName) [] [] [] [] []]) = false := by decide

end TexSoup.C12G
