import TexSoupProofs.Complete.SqueezeSep
import TexSoupProofs.Complete.ParseText
import TexSoupProofs.Properties.C02Strings
/-!
# C16 for documents of the grammar – the serialised text is a fixed point

For every well-formed document of the grammar (`Gram.WFD`), written with arbitrary spacer
tokens between commands and their arguments:

 * `squeeze` drops exactly the tokens the reader drops (the optional spacer in front of every
   argument group and of the `{name}` after `\begin` / `\end`);
 * (a) the serialisation of the tree is the text of the squeezed document (`serialisation_is_squeezed_text`);
 * (b) the squeezed document is well-formed again (`squeezed_wf`);
 * (c) it has *the same tree*, positions included (`squeezed_same_tree`);
 * (d) hence re-parsing the serialised text succeeds, gives a tree of identical shape
   (`shapeL`: identical up to the positions, which are now the offsets in the squeezed text) and
   serialises to the identical text (`reparse_fixed_point`, both tolerance modes).

Side conditions of (d), all decidable:
 * `envNamesPlainS d` – environment names are written without surrounding blanks
   (`\begin{ a }…\end{a}` is read as environment `a` and serialised `\begin{a}`: the text of the
   squeezed document differs from the serialisation there; kept out, visibly);
 * `Separated none (toksD (squeezeD d))` – the squeezed token list is again a tokenizer output.
   This *follows* from `Separated none (toksD d)` (the source is a tokenizer output) and
   `noBareSizing (toksD d)`: no command-name token is a bare *sizing prefix* (`\left`, `\right`,
   `\big`, `\Big`, `\bigg`, `\Bigg`) – `Gram.separated_squeeze`, used in `reparse_fixed_point_of_source`.
   This is the property's own side condition ("a sizing prefix is immediately followed by its
   delimiter": then prefix and delimiter are one sizing-command token and there is no such
   command-name token). It cannot be dropped: `\left [x]` is read as the command `\left` with an
   optional argument, serialised `\left[x]`, and that is the sizing command `\left[` followed by
   `x]` (`exSizing` below). Everything else survives the removal of the spacers: the dropped
   spacers stand between a name token or a closing `}` / `]` and an opening `{` / `[`; closers
   and openers are single-character tokens whatever surrounds them, a blank run in front ends
   where it ended, and a command name still ends in front of a non-letter.
-/
namespace TexSoup.C16G
open TexSoup TexSoup.Gram

/-- (a) -/
theorem serialisation_is_squeezed_text (d : Doc) (h : canonD d = true) :
    serL (treeD d) = flat (toksD (squeezeD d)) := serL_treeD d h

/-- (b) -/
theorem squeezed_wf (skip : List Str) (d : Doc) (h : WFD skip d = true) :
    WFD skip (squeezeD d) = true := WFD_squeeze skip d h

/-- (c) -/
theorem squeezed_same_tree (d : Doc) : treeD (squeezeD d) = treeD d := treeD_squeeze d

/-- **(d) The fixed point.** Re-parsing the serialised text of the tree of a well-formed
document succeeds, gives a tree of identical shape and the identical serialisation. -/
theorem reparse_fixed_point (tol : Bool) (skip : List Str) (d : Doc)
    (hwf : WFD (Tables.skipEnvNames ++ skip) d = true) (hen : envNamesPlainS d = true)
    (hsq : Separated none (toksD (squeezeD d))) :
    ∃ t2, parse tol skip (serL (treeD d)) = .ok t2 ∧ shapeL t2 = shapeL (treeD d) ∧
      serL t2 = serL (treeD d) := by
  have hcanon := canonD_of_separated_squeeze hwf hsq hen
  have hser := serL_treeD d hcanon
  have hread := document_complete (Tables.skipEnvNames ++ skip) tol (squeezeD d) (WFD_squeeze _ d hwf)
  rw [treeD_squeeze] at hread
  obtain ⟨t2, hp, hs⟩ := parse_text_of_tokens tol skip _ _ hsq hread
  exact ⟨t2, by rw [hser]; exact hp, hs, serL_of_shapeL_eq hs⟩

/-- The property's side condition: no command-name token is a bare sizing prefix. -/
def noBareSizing (ts : List Tok) : Bool :=
  ts.all fun t => !(t.cat == .CommandName && Tables.sizePrefix.contains t.text)

theorem noBareSizing_spec {ts : List Tok} (h : noBareSizing ts = true) :
    ∀ t ∈ ts, t.cat = .CommandName → t.text ∉ Tables.sizePrefix := by
  intro t ht hc hmem
  simp only [noBareSizing, List.all_eq_true] at h
  have := h t ht
  simp [hc] at this
  exact this hmem

/-- **(d) from the source.** The document is well-formed, its tokens are a tokenizer output,
environment names are written plainly and no command name is a bare sizing prefix: then the
serialised text of its tree re-parses to a tree of identical shape and serialises identically. -/
theorem reparse_fixed_point_of_source (tol : Bool) (skip : List Str) (d : Doc)
    (hwf : WFD (Tables.skipEnvNames ++ skip) d = true) (hen : envNamesPlainS d = true)
    (hsep : Separated none (toksD d)) (hsz : noBareSizing (toksD d) = true) :
    ∃ t2, parse tol skip (serL (treeD d)) = .ok t2 ∧ shapeL t2 = shapeL (treeD d) ∧
      serL t2 = serL (treeD d) :=
  reparse_fixed_point tol skip d hwf hen (separated_squeeze hwf hsep (noBareSizing_spec hsz))

/-- If the document was written without droppable spacers (`squeezeD d = d`, in particular
after one round trip) and its tokens carry the running offsets, the second parse is the first
one exactly: same tree, same text. -/
theorem reparse_exact (tol : Bool) (skip : List Str) (d : Doc)
    (hwf : WFD (Tables.skipEnvNames ++ skip) d = true) (hen : envNamesPlainS d = true)
    (hsq : squeezeD d = d) (hsep : Separated none (toksD d)) (hpos : Positioned 0 (toksD d)) :
    parse tol skip (serL (treeD d)) = .ok (treeD d) ∧ serL (treeD d) = flat (toksD d) := by
  have hcanon := canonD_of_separated hwf hsep hen
  have hs := serL_treeD d hcanon
  rw [hsq] at hs
  exact ⟨by rw [hs]; exact C02.document_parses tol skip d hwf hsep hpos, hs⟩

/-! ## Non-vacuity -/

private def t (s : Str) (p : Nat) (c : TC) : Tok := ⟨s, p, c⟩

/-- `\foo [a] {b}x` → tree → `\foo[a]{b}x` -/
def exSpaced : Doc :=
  [.cmd (t [92] 0 .Escape) (t [102, 111, 111] 1 .CommandName)
     [.mk (some (t [32] 4 .MergedSpacer)) (t [91] 5 .BracketBegin) [.leaf (t [97] 6 .Text)] (t [93] 7 .BracketEnd)]
     [.mk (some (t [32] 8 .MergedSpacer)) (t [123] 9 .GroupBegin) [.leaf (t [98] 10 .Text)] (t [125] 11 .GroupEnd)]
     [] [],
   .leaf (t [120] 12 .Text)]

example : flat (toksD exSpaced) = [92, 102, 111, 111, 32, 91, 97, 93, 32, 123, 98, 125, 120] := by decide
example : serL (treeD exSpaced) = [92, 102, 111, 111, 91, 97, 93, 123, 98, 125, 120] := by decide
example : WFD Tables.skipEnvNames exSpaced = true ∧ envNamesPlainS exSpaced = true ∧
    canonD exSpaced = true ∧ Separated none (toksD (squeezeD exSpaced)) := by decide +kernel
example : ∃ t2, parse false [] [92, 102, 111, 111, 91, 97, 93, 123, 98, 125, 120] = .ok t2 ∧
    shapeL t2 = shapeL (treeD exSpaced) ∧ serL t2 = [92, 102, 111, 111, 91, 97, 93, 123, 98, 125, 120] :=
  reparse_fixed_point false [] exSpaced (by decide) (by decide) (by decide +kernel)

example : ∃ t2, parse true [] (serL (treeD exSpaced)) = .ok t2 ∧
    shapeL t2 = shapeL (treeD exSpaced) ∧ serL t2 = serL (treeD exSpaced) :=
  reparse_fixed_point_of_source true [] exSpaced (by decide) (by decide) (by decide +kernel) (by decide)

/-- `\begin {a}x\end {a}`: the spacers after `\begin` and `\end` are dropped, too. -/
def exEnv : Doc :=
  [.env (t [92] 0 .Escape) (t sBegin 1 .CommandName)
    ⟨some (t [32] 6 .MergedSpacer), t [123] 7 .GroupBegin, t [97] 8 .Text, t [125] 9 .GroupEnd⟩ [] [] []
    [.leaf (t [120] 10 .Text)]
    (t [92] 11 .Escape) (t sEnd 12 .CommandName)
    ⟨some (t [32] 15 .MergedSpacer), t [123] 16 .GroupBegin, t [97] 17 .Text, t [125] 18 .GroupEnd⟩]

example : WFD Tables.skipEnvNames exEnv = true ∧ envNamesPlainS exEnv = true ∧
    Separated none (toksD exEnv) ∧ Positioned 0 (toksD exEnv) ∧
    Separated none (toksD (squeezeD exEnv)) := by decide +kernel
example : serL (treeD exEnv) =
    [92, 98, 101, 103, 105, 110, 123, 97, 125, 120, 92, 101, 110, 100, 123, 97, 125] := by decide

/-- **The side condition is needed**: `\left [x]` (a sizing prefix, a spacer, a bracket group).
The document is well-formed and its tokens are a tokenizer output; the squeezed tokens are
*not* (`\left[` is one sizing-command token), and indeed the serialised text `\left[x]`
tokenizes differently. -/
def exSizing : Doc :=
  [.cmd (t [92] 0 .Escape) (t [108, 101, 102, 116] 1 .CommandName)
     [.mk (some (t [32] 5 .MergedSpacer)) (t [91] 6 .BracketBegin) [.leaf (t [120] 7 .Text)] (t [93] 8 .BracketEnd)]
     [] [] []]

example : WFD Tables.skipEnvNames exSizing = true ∧ Separated none (toksD exSizing) ∧
    Positioned 0 (toksD exSizing) ∧ ¬ Separated none (toksD (squeezeD exSizing)) := by decide +kernel
example : noBareSizing (toksD exSizing) = false := by decide
example : serL (treeD exSizing) = [92, 108, 101, 102, 116, 91, 120, 93] := by decide
example : tokenize [92, 108, 101, 102, 116, 91, 120, 93] =
    some [t [92] 0 .Escape, t [108, 101, 102, 116, 91] 1 .PunctuationCommandName, t [120] 6 .Text,
      t [93] 7 .BracketEnd] := by decide +kernel

end TexSoup.C16G
