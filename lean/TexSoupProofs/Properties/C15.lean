import TexSoupProofs.EditLemmasHist
import TexSoupProofs.EditLemmasLegacy
/-!
# C15 – any history of edits refines a string-splicing reference model

"After any sequence of edits ... the serialised text equals that of a simple reference
document model subjected to the same edits. After every step, search results, descendants,
parent links and the text view computed on the edited tree are mutually consistent -
inserted material included - and nodes that were not targeted are never altered, duplicated
or lost."

The reference model (`TexSoupProofs/EditLemmasHist.lean`) is the serialised string; an edit
is resolved, against the *current* tree, into one splice `(offset, length, new text)`
(`resolve`), and `refApply` performs it on the string (`refRun` folds this over a history,
following the tree only to resolve the next target). Edits that the implementation refuses
resolve to `none` and are no-ops on both sides.

Consistency of the views: in the model `contents`/`children`/`descendants`/`text`/`find_all`
are functions of the one tree value (`Nav.lean`), and the correspondence harness
(`harness/lib_edit.py`) checks after every step that the implementation's tree – with the
inserted material stored as plain expressions – is that value; "never altered, duplicated or
lost" is C05 `edit_preserves_others` / C14 `node_edit_preserves_others`, which hold at every
step of a history because they hold for every document.
-/
namespace TexSoup.C15
open TexSoup TexSoup.Edit

/-- One step: the text after an edit is the text before, spliced as `resolve` says. -/
theorem step_refines (es : List Expr) (op : EditOp) :
    serL (applyEdit es op) = match resolve es op with
      | some r => refApply (serL es) r
      | none => serL es :=
  resolve_step es op

example : resolve Legacy.twins (.delete [.body 2]) = some (4, 2, []) := by decide

/-- After any history (any length, any tree, failing edits included) the serialised text
equals the reference string subjected to the same, resolved, edits. -/
theorem history_refines : ∀ (ops : List EditOp) (es : List Expr),
    serL (applyEdits es ops) = refRun es (serL es) ops :=
  history_refines_core

example : refRun Legacy.twins (serL Legacy.twins)
    [.delete [.body 2], .insert [] 0 [.text [115] (-1)], .rename [.body 1] [113]]
    = [115, 92, 113, 32, 121, 32, 122] := by decide

/-- The invariant `listOK` (= `TreeOK` of every node: every element of every `args` list is
a group or a bare command) is preserved by every edit whose new material satisfies it
(`OpOK`: material of `replace`/`insert`/`append` is `listOK`, material of `setArgs` is
`argsOK`, and `setString` is not aimed at a command whose single argument is a bare
command – that edit gives the bare command contents, in the implementation too). -/
theorem edit_preserves_wellformed (es : List Expr) (op : EditOp)
    (hes : listOK es = true) (hop : OpOK es op) : listOK (applyEdit es op) = true :=
  edit_ok hes hop

example : listOK Legacy.twins = true ∧ OpOK Legacy.twins (.replace [.body 0] [.text [115] (-1)]) :=
  ⟨by decide, by unfold OpOK; decide⟩

/-- ... lifted to histories (`HistOK`: every op is `OpOK` for the document it meets). -/
theorem edits_preserve_wellformed : ∀ (ops : List EditOp) (es : List Expr),
    listOK es = true → HistOK es ops → listOK (applyEdits es ops) = true :=
  edits_ok

example : HistOK Legacy.twins [.delete [.body 2], .insert [] 0 [.text [115] (-1)]] :=
  ⟨trivial, by unfold OpOK; decide, trivial⟩

/-- The hypothesis on `setString` in `OpOK` cannot be dropped: writing the string of
`\a\b` (a command whose single argument is the bare command `\b`) gives `\b` contents. -/
theorem setString_needs_group_argument : ∃ (es : List Expr) (p : Path) (s : Str),
    listOK es = true ∧ listOK (applyEdit es (.setString p s)) = false :=
  ⟨[.cmd [97] [.cmd [98] [] [] 2] [] 0], [.body 0], [115], by decide, by decide⟩

example : serL (applyEdit [.cmd [97] [.cmd [98] [] [] 2] [] 0] (.setString [.body 0] [115]))
    = [92, 97, 92, 98, 115] := by decide

end TexSoup.C15
