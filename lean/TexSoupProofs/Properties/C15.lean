import TexSoupProofs.EditLemmasHist
import TexSoupModel.ArgsEdit
import TexSoupProofs.EditLemmasLegacy
/-!
# C15 – any history of edits refines a string-splicing reference model

"After any sequence of edits ... the serialised text equals that of a simple reference
document model subjected to the same edits. After every step, search results, descendants,
parent links and the text view computed on the edited tree are mutually consistent -
inserted material included - and nodes that were not targeted are never altered, duplicated
or lost."

The reference model (`TexSoupProofs/EditLemmasHist.lean`) is the serialised string; an edit
is resolved, against the *current* tree, into one splice `(offset, length, new text)`
(`resolve`), and `refApply` performs it on the string (`refRun` folds this over a history,
following the tree only to resolve the next target). Edits that the implementation refuses
resolve to `none` and are no-ops on both sides.

Consistency of the views: in the model `contents`/`children`/`descendants`/`text`/`find_all`
are functions of the one tree value (`Nav.lean`), and the correspondence harness
(`harness/lib_edit.py`) checks after every step that the implementation's tree – with the
inserted material stored as plain expressions – is that value; "never altered, duplicated or
lost" is C05 `edit_preserves_others` / C14 `node_edit_preserves_others`, which hold at every
step of a history because they hold for every document.
-/
namespace TexSoup.C15
open TexSoup TexSoup.Edit

/-- One step: the text after an edit is the text before, spliced as `resolve` says. -/
theorem step_refines (es : List Expr) (op : EditOp) :
    serL (applyEdit es op) = match resolve es op with
      | some r => refApply (serL es) r
      | none => serL es :=
  resolve_step es op

example : resolve Legacy.twins (.delete [.body 2]) = some (4, 2, []) := by decide

/-- After any history (any length, any tree, failing edits included) the serialised text
equals the reference string subjected to the same, resolved, edits. -/
theorem history_refines : ∀ (ops : List EditOp) (es : List Expr),
    serL (applyEdits es ops) = refRun es (serL es) ops :=
  history_refines_core

example : refRun Legacy.twins (serL Legacy.twins)
    [.delete [.body 2], .insert [] 0 [.text [115] (-1)], .rename [.body 1] [113]]
    = [115, 92, 113, 32, 121, 32, 122] := by decide

/-- The invariant `listOK` (= `TreeOK` of every node: every element of every `args` list is
a group or a bare command) is preserved by every edit whose new material satisfies it
(`OpOK`: material of `replace`/`insert`/`append` is `listOK`, material of `setArgs` is
`argsOK`, and `setString` is not aimed at a command whose single argument is a bare
command – that edit gives the bare command contents, in the implementation too). -/
theorem edit_preserves_wellformed (es : List Expr) (op : EditOp)
    (hes : listOK es = true) (hop : OpOK es op) : listOK (applyEdit es op) = true :=
  edit_ok hes hop

example : listOK Legacy.twins = true ∧ OpOK Legacy.twins (.replace [.body 0] [.text [115] (-1)]) :=
  ⟨by decide, by unfold OpOK; decide⟩

/-- ... lifted to histories (`HistOK`: every op is `OpOK` for the document it meets). -/
theorem edits_preserve_wellformed : ∀ (ops : List EditOp) (es : List Expr),
    listOK es = true → HistOK es ops → listOK (applyEdits es ops) = true :=
  edits_ok

example : HistOK Legacy.twins [.delete [.body 2], .insert [] 0 [.text [115] (-1)]] :=
  ⟨trivial, by unfold OpOK; decide, trivial⟩

/-- The hypothesis on `setString` in `OpOK` cannot be dropped: writing the string of
`\a\b` (a command whose single argument is the bare command `\b`) gives `\b` contents. -/
theorem setString_needs_group_argument : ∃ (es : List Expr) (p : Path) (s : Str),
    listOK es = true ∧ listOK (applyEdit es (.setString p s)) = false :=
  ⟨[.cmd [97] [.cmd [98] [] [] 2] [] 0], [.body 0], [115], by decide, by decide⟩

example : serL (applyEdit [.cmd [97] [.cmd [98] [] [] 2] [] 0] (.setString [.body 0] [115]))
    = [92, 97, 92, 98, 115] := by decide

/-- Operations on a node's argument list inside a history.  Whatever the list-level effect
`f` of the operation is (for `TexArgs` it is the effect of the same operation on a plain
Python list, property C18), putting `f` of the current arguments on the node changes the
serialised document exactly in the span of the arguments, which becomes the text of the new
list, and the node at `p` is the same node with the new list. -/
theorem args_op_splice (es : List Expr) (p : Path) (y : Expr) (f : List Expr → List Expr)
    (hp : p ≠ []) (hy : getAtRoot es p = some y) (ha : y.hasArgs = true) :
    ∃ k, offAtRoot es p = some k ∧
      getAtRoot (applyEdit es (.setArgs p (f y.args))) p = some (y.setArgs (f y.args)) ∧
      serL (applyEdit es (.setArgs p (f y.args))) =
        (serL es).take (k + (argsPre y).length) ++
          (serL (f y.args) ++ (serL es).drop (k + (argsPre y).length + (serL y.args).length)) :=
  setArgs_core (f y.args) hp hy ha

example : ∃ es p y, p ≠ [] ∧ getAtRoot es p = some y ∧ y.hasArgs = true :=
  ⟨[.cmd [120] [.group .brace [.text [97] 3] 2] [] 0], [.body 0], _, by simp, rfl, rfl⟩

/-- The `aop` steps of histories (`ListOp`: append/extend/insert/pop/remove/reverse/clear/slice/
permutation/put-back, with Python's index conventions) are `setArgs` edits: when the list
operation succeeds on the current arguments the step is `.setArgs p l` with `l` its result,
when it raises (or there is no node at `p`) the document stays as it is.  Hence `step_refines`
and `history_refines` cover these steps. -/
theorem list_op_is_setArgs (es : List Expr) (p : Path) (y : Expr) (op : ListOp)
    (hy : getAtRoot es p = some y) :
    (∀ l, op.apply y.args = some l → applyArgsOp es p op = applyEdit es (.setArgs p l)) ∧
    (op.apply y.args = none → applyArgsOp es p op = es) := by
  constructor
  · intro l hl; simp [applyArgsOp, argsOpEdit, hy, hl]
  · intro hl; simp [applyArgsOp, argsOpEdit, hy, hl]

example : serL (applyArgsOp [.cmd [120] [.group .brace [.text [97] 3] 2, .group .bracket [.text [98] 6] 5] [] 0]
    [.body 0] .reverse) = [92, 120, 91, 98, 93, 123, 97, 125] := by decide

/-- ... and on the serialised text they are the splice that `resolve` computes for that
`setArgs`. -/
theorem list_op_refines (es : List Expr) (p : Path) (op : ListOp) :
    serL (applyArgsOp es p op) = match argsOpEdit es p op with
      | some e => refStep es (serL es) e
      | none => serL es := by
  unfold applyArgsOp
  cases argsOpEdit es p op with
  | none => rfl
  | some e => exact resolve_step es e

example : argsOpEdit [.cmd [120] [.group .brace [.text [97] 3] 2] [] 0] [.body 0] (.pop 5) = none := by
  decide

end TexSoup.C15
