import TexSoupProofs.Properties.TokFacts
import TexSoupProofs.TokLemmas.Shaped
import TexSoupProofs.TokLemmas.SkipPlain
/-!
# The lexical hypotheses of the reader's conservation theorem hold for real token streams

`Hyp skip0 ts` (`TexSoupProofs/Reader/ConsDefs.lean`) bundles four hypotheses on a token list.
Three of them are purely lexical and are discharged here for `ts = tokenize s`:
`shaped` (no side condition), `escOK` and `skipPlain` (for strings without NUL/DEL
characters; `skipPlain` for plain environment names).  Helper lemmas live in
`TexSoupProofs/TokLemmas/Shaped.lean` and `TexSoupProofs/TokLemmas/SkipPlain.lean`, where
`PlainEnvName` is defined.
-/
namespace TexSoup

/-! ## 1. `shaped` -/

/-- Every delimiter-category token the tokenizer produces has exactly the text its category
stands for (`\`, `{`, `}`, `[`, `]`, `$`, `$$`, `\(`, `\)`, `\[`, `\]`).  No assumption on the
input: ignored characters are skipped before a token starts, never inside one. -/
theorem tokens_shaped {s : Str} {ts : List Tok} (h : tokenize s = some ts) :
    ∀ t ∈ ts, shapedB t = true :=
  tokenize_shaped h

/-- `NUL \ [ $ $ $ DEL { ] \ )`: many delimiter kinds, with ignored characters in between.
(The leading NUL makes `ignore` run after `math_asym_switch` has already declined, so `\[`
comes out as `\` and `[` – both shaped.) -/
example : tokenize [0, 92, 91, 36, 36, 36, 127, 123, 93, 92, 41] = some
    [⟨[92], 1, .Escape⟩, ⟨[91], 2, .BracketBegin⟩, ⟨[36, 36], 3, .DisplayMathSwitch⟩,
     ⟨[36], 5, .MathSwitch⟩, ⟨[123], 7, .GroupBegin⟩, ⟨[93], 8, .BracketEnd⟩,
     ⟨[92, 41], 9, .MathGroupEnd⟩] := by decide +kernel

/-! ## 2. `escOK` -/

/-- In a string without ignored characters, the token after an `Escape` token is its own
`strip()` (the `escOK` field of `Hyp`). -/
theorem tokens_escOK {s : Str} {ts : List Tok} (hs : ∀ c ∈ s, isIgnored (catOf c) = false)
    (h : tokenize s = some ts) :
    ∀ pre esc n r, ts = pre ++ esc :: n :: r → esc.cat = .Escape → strip n.text = n.text := by
  intro pre esc n r hsplit hesc
  rcases after_escape hs h pre esc (n :: r) hsplit hesc with h0 | ⟨u, post', hu, _, _, hstrip⟩
  · cases h0
  · cases hu; exact hstrip

/-- `\bf x`: the hypotheses hold, with `esc = \` and `n = bf`. -/
example : (∀ c ∈ ([92, 98, 102, 32, 120] : Str), isIgnored (catOf c) = false) ∧
    tokenize [92, 98, 102, 32, 120] = some
      ([] ++ ⟨[92], 0, .Escape⟩ :: ⟨[98, 102], 1, .CommandName⟩ :: [⟨[32, 120], 3, .Text⟩]) := by
  decide +kernel

/-! ## 3. `skipPlain` -/

/-- For a plain environment name, `\end{name}` at a token boundary of a string without ignored
characters is spelled by exactly five tokens: `\`, `end`, `{`, `name`, `}`. -/
theorem tokens_skipPlain {s : Str} {ts : List Tok} (hs : ∀ c ∈ s, isIgnored (catOf c) = false)
    (h : tokenize s = some ts) {name : Str} (hpl : PlainEnvName name) :
    ∀ pre rest, ts = pre ++ rest → bufStartsWith (endMarker name) rest = true →
      flat (rest.take 5) = endMarker name :=
  fun pre rest hsplit hb => tokenize_skipPlain hs h hpl pre rest hsplit hb

/-- The five built-in verbatim-like names (`SKIP_ENV_NAMES`) are plain. -/
theorem skipEnvNames_plainEnvName : ∀ n ∈ Tables.skipEnvNames, PlainEnvName n :=
  skipEnvNames_plain

/-- `$\end{verbatim}x`: all hypotheses hold at the boundary after the `$` token. -/
example :
    (∀ c ∈ ([36, 92, 101, 110, 100, 123, 118, 101, 114, 98, 97, 116, 105, 109, 125, 120] : Str),
      isIgnored (catOf c) = false) ∧
    PlainEnvName [118, 101, 114, 98, 97, 116, 105, 109] ∧
    tokenize [36, 92, 101, 110, 100, 123, 118, 101, 114, 98, 97, 116, 105, 109, 125, 120] = some
      ([⟨[36], 0, .MathSwitch⟩] ++
        [⟨[92], 1, .Escape⟩, ⟨[101, 110, 100], 2, .CommandName⟩, ⟨[123], 5, .GroupBegin⟩,
         ⟨[118, 101, 114, 98, 97, 116, 105, 109], 6, .Text⟩, ⟨[125], 14, .GroupEnd⟩,
         ⟨[120], 15, .Text⟩]) ∧
    bufStartsWith (endMarker [118, 101, 114, 98, 97, 116, 105, 109])
      [⟨[92], 1, .Escape⟩, ⟨[101, 110, 100], 2, .CommandName⟩, ⟨[123], 5, .GroupBegin⟩,
       ⟨[118, 101, 114, 98, 97, 116, 105, 109], 6, .Text⟩, ⟨[125], 14, .GroupEnd⟩,
       ⟨[120], 15, .Text⟩] = true := by
  decide +kernel

/-- A name of blanks only is plain too (it becomes one `MergedSpacer` token), and so is a name
with a leading blank followed by a letter (`tokenize_spacers` backs off). -/
example : PlainEnvName [32, 32] ∧ PlainEnvName [32, 97] := by decide

/-- The blank-run condition of `PlainEnvName` cannot be dropped: for the name ` (` (blank, then a
parenthesis) every character is a non-ignored non-stop character, the buffer test succeeds on
`\end{ (}`, but the name is split into a `MergedSpacer` and a `Text` token, so five tokens do not
spell the marker. -/
example :
    (∀ c ∈ ([32, 40] : Str), isStringStop (catOf c) = false ∧ isIgnored (catOf c) = false) ∧
    ¬ PlainEnvName [32, 40] ∧
    tokenize [92, 101, 110, 100, 123, 32, 40, 125] = some
      [⟨[92], 0, .Escape⟩, ⟨[101, 110, 100], 1, .CommandName⟩, ⟨[123], 4, .GroupBegin⟩,
       ⟨[32], 5, .MergedSpacer⟩, ⟨[40], 6, .Text⟩, ⟨[125], 7, .GroupEnd⟩] ∧
    bufStartsWith (endMarker [32, 40])
      [⟨[92], 0, .Escape⟩, ⟨[101, 110, 100], 1, .CommandName⟩, ⟨[123], 4, .GroupBegin⟩,
       ⟨[32], 5, .MergedSpacer⟩, ⟨[40], 6, .Text⟩, ⟨[125], 7, .GroupEnd⟩] = true ∧
    flat ([⟨[92], 0, .Escape⟩, ⟨[101, 110, 100], 1, .CommandName⟩, ⟨[123], 4, .GroupBegin⟩,
       ⟨[32], 5, .MergedSpacer⟩, ⟨[40], 6, .Text⟩, (⟨[125], 7, .GroupEnd⟩ : Tok)].take 5) ≠
      endMarker [32, 40] := by
  decide +kernel

/-! ## 4. Assembly -/

/-- The three lexical fields of `Hyp` hold for the token list of any string without ignored
characters, provided the verbatim-like names in use are plain; only the `envPlain` field
(which talks about the reader) remains a hypothesis. -/
theorem lexical_hyp {s : Str} {ts : List Tok} {skip0 : List Str}
    (hs : ∀ c ∈ s, isIgnored (catOf c) = false) (h : tokenize s = some ts)
    (hskip : ∀ n, memStr n skip0 = true → PlainEnvName n)
    (henv : ∀ pre esc n r, ts = pre ++ esc :: n :: r → esc.cat = .Escape →
      (n.text = sBegin ∨ n.text = sEnd) →
      ∀ g nreq nopt tol mode a0 as rest, readArgs g nreq nopt tol mode r = .ok (a0 :: as, rest) →
        (∃ b p, a0 = .group .brace b p) ∧ strip a0.string = a0.string ∧ noBareA [a0] = true) :
    Hyp skip0 ts where
  shaped := tokens_shaped h
  escOK := tokens_escOK hs h
  envPlain := henv
  skipPlain := fun name hn => tokens_skipPlain hs h (hskip name hn)

/-- The side condition on names holds for the built-in list. -/
theorem skipEnvNames_memStr_plain : ∀ n, memStr n Tables.skipEnvNames = true → PlainEnvName n := by
  intro n hn
  have hmem : ∀ (l : List Str), memStr n l = true → n ∈ l := by
    intro l
    induction l with
    | nil => simp [memStr]
    | cons a l ih =>
      simp only [memStr, Bool.or_eq_true, beq_iff_eq, List.mem_cons]
      rintro (h | h)
      · exact Or.inl h
      · exact Or.inr (ih h)
  exact skipEnvNames_plain n (hmem _ hn)

end TexSoup
