import TexSoupProofs.Complete.CommentsSep
import TexSoupProofs.Complete.ParseText
import TexSoupProofs.TokLemmas.SepFacts
/-!
# C10 for documents of the grammar – the tree around a comment does not depend on its payload

`mapCommentsD f d` replaces the text of every comment leaf of `d` by `f` of it. Proved for all
documents of the grammar and all `f`:

 * the document stays well-formed (`payload_keeps_wf`): no frame condition looks at the text
   of a leaf;
 * its tree is the tree of `d` with exactly the comment leaves relabelled
   (`tree_of_substituted`): same nodes, names, argument groups, nesting and positions –
   `mapCommentTextsL f` touches nothing but the text nodes that are comments;
 * hence two payloads give trees that coincide once the comment leaves are blanked
   (`payload_irrelevant`), and the reader returns exactly these trees
   (`read_substituted`, `parse_substituted`).

At the level of `Expr` a comment leaf is recognised by its text: it starts with a comment
character (`isCommentText`). Side conditions (decidable, true of tokenizer output –
`separated_marked`): a leaf token is a `Comment` token iff its text starts with `%`
(`Marked`), and no raw verbatim body starts with one (`verbOK`; there a `%` is no comment, and
the whole body is one text node).

For the substituted document to be the token list of its own text, the new comment token must
satisfy the tokenizer's condition `TokOK` for comments (`tokOK_comment`): `%`, a payload without
end-of-line character, followed by an end-of-line character or the end of input. If every new
payload is such a comment (`goodPayload`), the substituted token list is a tokenizer output
whenever the original one is (`Gram.separated_mapComments`: every decision about the tokens in
front of a comment is taken at its `%` at the latest, and the token after it starts with the end
of line), which gives the statement from source text to tree: `comment_payload_does_not_matter`.
-/
namespace TexSoup.C10G
open TexSoup TexSoup.Gram

/-- a text that starts with a comment character -/
def isCommentText : Str → Bool
  | c :: _ => catOf c == .Comment
  | [] => false

mutual
/-- Relabel the comment leaves of a tree. -/
def mapCommentTexts (f : Str → Str) : Expr → Expr
  | .text s p => if isCommentText s then .text (f s) p else .text s p
  | .cmd n a b p => .cmd n (mapCommentTextsL f a) (mapCommentTextsL f b) p
  | .nenv n a b p => .nenv n (mapCommentTextsL f a) (mapCommentTextsL f b) p
  | .math k b p => .math k (mapCommentTextsL f b) p
  | .group k b p => .group k (mapCommentTextsL f b) p
def mapCommentTextsL (f : Str → Str) : List Expr → List Expr
  | [] => []
  | e :: es => mapCommentTexts f e :: mapCommentTextsL f es
end

@[simp] theorem mapCommentTextsL_nil (f : Str → Str) : mapCommentTextsL f [] = [] := by
  simp [mapCommentTextsL]
@[simp] theorem mapCommentTextsL_cons (f : Str → Str) (e : Expr) (es : List Expr) :
    mapCommentTextsL f (e :: es) = mapCommentTexts f e :: mapCommentTextsL f es := by
  simp [mapCommentTextsL]

theorem mapCommentTextsL_append (f : Str → Str) (a b : List Expr) :
    mapCommentTextsL f (a ++ b) = mapCommentTextsL f a ++ mapCommentTextsL f b := by
  induction a with
  | nil => simp
  | cons e es ih => simp [ih]

/-- A token is a comment token iff its text starts with a comment character. -/
def Marked (ts : List Tok) : Prop := ∀ t ∈ ts, (t.cat == .Comment) = isCommentText t.text

mutual
/-- No raw verbatim body starts with a comment character. -/
def verbOK : Elem → Bool
  | .leaf _ => true
  | .group _ b _ => verbOKS b
  | .math _ _ b _ => verbOKS b
  | .cmd _ _ a1 a2 a3 a4 => verbOKA a1 && verbOKA a2 && verbOKA a3 && verbOKA a4
  | .item _ _ a1 a2 a3 a4 b => verbOKA a1 && verbOKA a2 && verbOKA a3 && verbOKA a4 && verbOKS b
  | .env _ _ _ a2 a3 a4 b _ _ _ => verbOKA a2 && verbOKA a3 && verbOKA a4 && verbOKS b
  | .venv _ _ _ a2 a3 a4 vb _ => verbOKA a2 && verbOKA a3 && verbOKA a4 && !isCommentText (flat vb)
def verbOKS : List Elem → Bool
  | [] => true
  | e :: es => verbOK e && verbOKS es
def verbOKArg : Arg → Bool
  | .mk _ _ b _ => verbOKS b
def verbOKA : List Arg → Bool
  | [] => true
  | a :: as => verbOKArg a && verbOKA as
end

theorem Marked.sub {ts l : List Tok} (h : Marked ts) (hl : ∀ t ∈ l, t ∈ ts) : Marked l :=
  fun t ht => h t (hl t ht)

mutual
theorem tree_mapComments (f : Str → Str) : ∀ e : Elem, Marked (toks e) → verbOK e = true →
    tree (mapComments f e) = mapCommentTexts f (tree e)
  | .leaf t, hm, _ => by
      have h := hm t (by simp [toks])
      by_cases hc : (t.cat == TC.Comment) = true
      · rw [hc] at h
        simp [mapComments, mapCommentTok, hc, tree, mapCommentTexts, ← h]
      · have hc' : (t.cat == TC.Comment) = false := by simpa using hc
        rw [hc'] at h
        simp [mapComments, mapCommentTok, hc', tree, mapCommentTexts, ← h]
  | .group o b c, hm, hv => by
      simp only [verbOK] at hv
      simp [mapComments, tree, mapCommentTexts,
        trees_mapComments f b (hm.sub (by intro t ht; simp [toks, ht])) hv]
  | .math k o b c, hm, hv => by
      simp only [verbOK] at hv
      simp [mapComments, tree, mapCommentTexts,
        trees_mapComments f b (hm.sub (by intro t ht; simp [toks, ht])) hv]
  | .cmd e n a1 a2 a3 a4, hm, hv => by
      simp only [verbOK, Bool.and_eq_true] at hv
      simp [mapComments, tree, mapCommentTexts, mapCommentTextsL_append,
        treesA_mapComments f _ a1 (hm.sub (by intro t ht; simp [toks, ht])) hv.1.1.1,
        treesA_mapComments f _ a2 (hm.sub (by intro t ht; simp [toks, ht])) hv.1.1.2,
        treesA_mapComments f _ a3 (hm.sub (by intro t ht; simp [toks, ht])) hv.1.2,
        treesA_mapComments f _ a4 (hm.sub (by intro t ht; simp [toks, ht])) hv.2]
  | .item e n a1 a2 a3 a4 b, hm, hv => by
      simp only [verbOK, Bool.and_eq_true] at hv
      simp [mapComments, tree, mapCommentTexts, mapCommentTextsL_append,
        treesA_mapComments f _ a1 (hm.sub (by intro t ht; simp [toks, ht])) hv.1.1.1.1,
        treesA_mapComments f _ a2 (hm.sub (by intro t ht; simp [toks, ht])) hv.1.1.1.2,
        treesA_mapComments f _ a3 (hm.sub (by intro t ht; simp [toks, ht])) hv.1.1.2,
        treesA_mapComments f _ a4 (hm.sub (by intro t ht; simp [toks, ht])) hv.1.2,
        trees_mapComments f b (hm.sub (by intro t ht; simp [toks, ht])) hv.2]
  | .env e bg nm a2 a3 a4 b e2 en nm2, hm, hv => by
      simp only [verbOK, Bool.and_eq_true] at hv
      simp [mapComments, tree, mapCommentTexts, mapCommentTextsL_append,
        treesA_mapComments f _ a2 (hm.sub (by intro t ht; simp [toks, ht])) hv.1.1.1,
        treesA_mapComments f _ a3 (hm.sub (by intro t ht; simp [toks, ht])) hv.1.1.2,
        treesA_mapComments f _ a4 (hm.sub (by intro t ht; simp [toks, ht])) hv.1.2,
        trees_mapComments f b (hm.sub (by intro t ht; simp [toks, ht])) hv.2]
  | .venv e bg nm a2 a3 a4 vb e5, hm, hv => by
      simp only [verbOK, Bool.and_eq_true, Bool.not_eq_true'] at hv
      simp [mapComments, tree, mapCommentTexts, mapCommentTextsL_append, hv.2,
        treesA_mapComments f _ a2 (hm.sub (by intro t ht; simp [toks, ht])) hv.1.1.1,
        treesA_mapComments f _ a3 (hm.sub (by intro t ht; simp [toks, ht])) hv.1.1.2,
        treesA_mapComments f _ a4 (hm.sub (by intro t ht; simp [toks, ht])) hv.1.2]
theorem trees_mapComments (f : Str → Str) : ∀ es : List Elem, Marked (toksS es) → verbOKS es = true →
    trees (mapCommentsS f es) = mapCommentTextsL f (trees es)
  | [], _, _ => by simp
  | e :: es, hm, hv => by
      simp only [verbOKS, Bool.and_eq_true] at hv
      simp [tree_mapComments f e (hm.sub (by intro t ht; simp [ht])) hv.1,
        trees_mapComments f es (hm.sub (by intro t ht; simp [ht])) hv.2]
theorem treeArg_mapComments (f : Str → Str) (k : GKind) : ∀ a : Arg, Marked (toksArg a) →
    verbOKArg a = true → treeArg k (mapCommentsArg f a) = mapCommentTexts f (treeArg k a)
  | .mk sp o b c, hm, hv => by
      simp only [verbOKArg] at hv
      simp [mapCommentsArg, treeArg, mapCommentTexts,
        trees_mapComments f b (hm.sub (by intro t ht; simp [toksArg, ht])) hv]
theorem treesA_mapComments (f : Str → Str) (k : GKind) : ∀ as : List Arg, Marked (toksA as) →
    verbOKA as = true → treesA k (mapCommentsA f as) = mapCommentTextsL f (treesA k as)
  | [], _, _ => by simp
  | a :: as, hm, hv => by
      simp only [verbOKA, Bool.and_eq_true] at hv
      simp [treeArg_mapComments f k a (hm.sub (by intro t ht; simp [ht])) hv.1,
        treesA_mapComments f k as (hm.sub (by intro t ht; simp [ht])) hv.2]
end

/-! ## The property -/

/-- No frame condition looks at a comment's payload. -/
theorem payload_keeps_wf (f : Str → Str) (skip : List Str) (d : Doc) (h : WFD skip d = true) :
    WFD skip (mapCommentsD f d) = true := WFD_mapComments f skip d h

/-- **The tree of the substituted document is the tree of the document with exactly the
comment leaves relabelled.** -/
theorem tree_of_substituted (f : Str → Str) (d : Doc) (hm : Marked (toksD d)) (hv : verbOKS d = true) :
    treeD (mapCommentsD f d) = mapCommentTextsL f (treeD d) :=
  trees_mapComments f d hm hv

/-- … and this is what the reader returns (token level, both tolerance modes). -/
theorem read_substituted (f : Str → Str) (skip : List Str) (tol : Bool) (d : Doc)
    (hwf : WFD skip d = true) (hm : Marked (toksD d)) (hv : verbOKS d = true) :
    readTex (parseFuel (toksD (mapCommentsD f d))) skip tol (toksD (mapCommentsD f d)) =
      .ok (mapCommentTextsL f (treeD d)) := by
  rw [← tree_of_substituted f d hm hv]
  exact document_complete skip tol _ (payload_keeps_wf f skip d hwf)

mutual
theorem mapCommentTexts_comp (f g : Str → Str) (hf : ∀ s, isCommentText s = true → isCommentText (f s) = true) :
    ∀ e : Expr, mapCommentTexts g (mapCommentTexts f e) = mapCommentTexts (g ∘ f) e
  | .text s p => by
      by_cases h : isCommentText s = true
      · simp [mapCommentTexts, h, hf s h]
      · simp [mapCommentTexts, h]
  | .cmd n a b p => by
      simp [mapCommentTexts, mapCommentTextsL_comp f g hf a, mapCommentTextsL_comp f g hf b]
  | .nenv n a b p => by
      simp [mapCommentTexts, mapCommentTextsL_comp f g hf a, mapCommentTextsL_comp f g hf b]
  | .math k b p => by simp [mapCommentTexts, mapCommentTextsL_comp f g hf b]
  | .group k b p => by simp [mapCommentTexts, mapCommentTextsL_comp f g hf b]
theorem mapCommentTextsL_comp (f g : Str → Str) (hf : ∀ s, isCommentText s = true → isCommentText (f s) = true) :
    ∀ es : List Expr, mapCommentTextsL g (mapCommentTextsL f es) = mapCommentTextsL (g ∘ f) es
  | [] => by simp
  | e :: es => by simp [mapCommentTexts_comp f g hf e, mapCommentTextsL_comp f g hf es]
end

/-- **Two payloads, one tree around them**: blank the comment leaves (replace each by a bare
`%`) and the trees of the two substituted documents are equal – every other node, name,
argument group, nesting and position coincides. -/
theorem payload_irrelevant (f g : Str → Str) (d : Doc) (hm : Marked (toksD d)) (hv : verbOKS d = true)
    (hf : ∀ s, isCommentText s = true → isCommentText (f s) = true)
    (hg : ∀ s, isCommentText s = true → isCommentText (g s) = true) :
    mapCommentTextsL (fun _ => [37]) (treeD (mapCommentsD f d)) =
      mapCommentTextsL (fun _ => [37]) (treeD (mapCommentsD g d)) := by
  rw [tree_of_substituted f d hm hv, tree_of_substituted g d hm hv,
    mapCommentTextsL_comp f _ hf, mapCommentTextsL_comp g _ hg]
  rfl

/-! ## Source text -/

/-- What a comment token must look like: `%`, then no end-of-line character. -/
def goodPayload : Str → Bool
  | c :: body => catOf c == .Comment && body.all (fun x => catOf x != .EndOfLine)
  | [] => false

/-- The tokenizer's condition for the new comment token: it is followed by an end-of-line
character or by nothing. -/
theorem tokOK_comment (prev : Option Ch) (s : Str) (p : Nat) (w : Str) (hs : goodPayload s = true)
    (hw : ∀ c ∈ w.head?, catOf c = .EndOfLine) : TokOK prev ⟨s, p, .Comment⟩ w := by
  cases s with
  | nil => simp [goodPayload] at hs
  | cons c body =>
    simp only [goodPayload, Bool.and_eq_true, beq_iff_eq, List.all_eq_true, bne_iff_ne, ne_eq] at hs
    show TokOK' prev (c :: body) TC.Comment w
    simp only [TokOK', TxtMany]
    exact ⟨hs.1, hs.2, hw⟩

theorem goodPayload_isCommentText {s : Str} (h : goodPayload s = true) : isCommentText s = true := by
  cases s with
  | nil => simp [goodPayload] at h
  | cons c body =>
    simp only [goodPayload, Bool.and_eq_true] at h
    simpa [isCommentText] using h.1

/-- **From source text**: if the substituted token list is a tokenizer output, its text parses
to the relabelled tree (up to the positions, which move with the length of the payloads). -/
theorem parse_substituted (f : Str → Str) (skip : List Str) (tol : Bool) (d : Doc)
    (hwf : WFD (Tables.skipEnvNames ++ skip) d = true) (hm : Marked (toksD d)) (hv : verbOKS d = true)
    (hsep : Separated none (toksD (mapCommentsD f d))) :
    ∃ t2, parse tol skip (flat (toksD (mapCommentsD f d))) = .ok t2 ∧
      shapeL t2 = shapeL (mapCommentTextsL f (treeD d)) := by
  rw [← tree_of_substituted f d hm hv]
  exact document_parses_shape tol skip _ (payload_keeps_wf f _ d hwf) hsep

/-! ## The side conditions hold for tokenizer output -/

theorem punctuation_not_comment : ∀ p ∈ Tables.punctuationCommands, isCommentText p = false := by
  decide +kernel

theorem tokOK_marked {prev : Option Ch} {t : Tok} {w : Str} (h : TokOK prev t w) :
    (t.cat == .Comment) = isCommentText t.text := by
  unfold TokOK at h
  cases hc : t.cat <;> rw [hc] at h <;> simp only [TokOK'] at h
  case Escape =>
    obtain ⟨c0, ht, h0, _⟩ := txtOne_iff.1 h
    simp only [ht, isCommentText, h0]; rfl
  case GroupBegin => obtain ⟨c0, ht, h0⟩ := txtOne_iff.1 h; simp only [ht, isCommentText, h0]; rfl
  case GroupEnd => obtain ⟨c0, ht, h0⟩ := txtOne_iff.1 h; simp only [ht, isCommentText, h0]; rfl
  case BracketBegin => obtain ⟨c0, ht, h0⟩ := txtOne_iff.1 h; simp only [ht, isCommentText, h0]; rfl
  case BracketEnd => obtain ⟨c0, ht, h0⟩ := txtOne_iff.1 h; simp only [ht, isCommentText, h0]; rfl
  case MathSwitch => obtain ⟨c0, ht, h0, _⟩ := txtOne_iff.1 h; simp only [ht, isCommentText, h0]; rfl
  case DisplayMathSwitch => obtain ⟨a, b, ht, h0, _⟩ := txtTwo_iff.1 h; simp only [ht, isCommentText, h0]; rfl
  case EscapedComment => obtain ⟨a, b, ht, h0, _⟩ := txtTwo_iff.1 h; simp only [ht, isCommentText, h0]; rfl
  case MathGroupBegin => obtain ⟨a, b, ht, h0, _⟩ := txtTwo_iff.1 h; simp only [ht, isCommentText, h0]; rfl
  case MathGroupEnd => obtain ⟨a, b, ht, h0, _⟩ := txtTwo_iff.1 h; simp only [ht, isCommentText, h0]; rfl
  case DisplayMathGroupBegin => obtain ⟨a, b, ht, h0, _⟩ := txtTwo_iff.1 h; simp only [ht, isCommentText, h0]; rfl
  case DisplayMathGroupEnd => obtain ⟨a, b, ht, h0, _⟩ := txtTwo_iff.1 h; simp only [ht, isCommentText, h0]; rfl
  case Comment => obtain ⟨c0, body, ht, h0, _⟩ := txtMany_iff.1 h; simp only [ht, isCommentText, h0]; rfl
  case MergedSpacer =>
    obtain ⟨hne, hrun, _⟩ := h
    cases ht : t.text with
    | nil => exact absurd ht hne
    | cons c0 body =>
      rw [ht] at hrun
      simp only [isCommentText]
      cases hcc : catOf c0 == CC.Comment with
      | false => rfl
      | true =>
        exfalso
        have hcc' : catOf c0 = CC.Comment := by simpa using hcc
        have : spacerRun (c0 :: (body ++ w)) = 0 :=
          spacerRun_zero c0 _ (by rw [hcc']; decide) (by rw [hcc']; decide)
        simp only [List.cons_append] at hrun
        rw [this] at hrun
        simp at hrun
  case CommandName =>
    obtain ⟨_, hm, _, _⟩ := h
    obtain ⟨c0, body, ht, h0, _⟩ := txtMany_iff.1 hm
    simp only [ht, isCommentText, h0]; rfl
  case PunctuationCommandName =>
    rw [punctuation_not_comment _ h.2]; rfl
  case Text =>
    obtain ⟨hm, hall, _, _⟩ := h
    obtain ⟨c0, body, ht, _, _⟩ := txtMany_iff.1 hm
    have := hall c0 (by simp [ht])
    simp only [ht, isCommentText]
    cases hcc : catOf c0 == CC.Comment with
    | false => rfl
    | true =>
      have hcc' : catOf c0 = CC.Comment := by simpa using hcc
      rw [hcc'] at this; cases this

/-- In a tokenizer output a token is a comment token iff its text starts with `%`. -/
theorem separated_marked {prev : Option Ch} {ts : List Tok} (h : Separated prev ts) : Marked ts := by
  induction ts generalizing prev with
  | nil => intro t ht; cases ht
  | cons u r ih =>
    obtain ⟨_, hu, hr⟩ := h
    intro t ht
    rcases List.mem_cons.1 ht with rfl | ht
    · exact tokOK_marked hu
    · exact ih hr t ht

theorem commentPayload_of_good (f : Str → Str) (hf : ∀ s, goodPayload (f s) = true) : CommentPayload f := by
  intro s
  have h := hf s
  cases hfs : f s with
  | nil => rw [hfs] at h; simp [goodPayload] at h
  | cons c body =>
    rw [hfs] at h
    simp only [goodPayload, Bool.and_eq_true, beq_iff_eq, List.all_eq_true, bne_iff_ne, ne_eq] at h
    exact ⟨body, by rw [comment_char h.1], h.2⟩

/-- **C10, from source text to tree.** Take a well-formed document whose tokens are a tokenizer
output, and replace the comments by arbitrary other comments (`%`, then anything but an end of
line – braces, brackets, `$`, `\begin`, `\end` …). The text of the new document parses, in both
tolerance modes, to the tree of the old one with exactly the comment leaves relabelled (the
positions shift with the lengths of the payloads: `shapeL`). -/
theorem comment_payload_does_not_matter (f : Str → Str) (hf : ∀ s, goodPayload (f s) = true)
    (skip : List Str) (tol : Bool) (d : Doc) (hwf : WFD (Tables.skipEnvNames ++ skip) d = true)
    (hsep : Separated none (toksD d)) (hv : verbOKS d = true) :
    Separated none (toksD (mapCommentsD f d)) ∧
    ∃ t2, parse tol skip (flat (toksD (mapCommentsD f d))) = .ok t2 ∧
      shapeL t2 = shapeL (mapCommentTextsL f (treeD d)) :=
  have hs := separated_mapComments f (commentPayload_of_good f hf) d hsep
  ⟨hs, parse_substituted f skip tol d hwf (separated_marked hsep) hv hs⟩

/-! ## Non-vacuity -/

private def t (s : Str) (p : Nat) (c : TC) : Tok := ⟨s, p, c⟩

/-- `\foo[%a⏎]{x}%b` – a comment inside an optional argument, one at the end. -/
def exDoc : Doc :=
  [.cmd (t [92] 0 .Escape) (t [102, 111, 111] 1 .CommandName)
     [.mk none (t [91] 4 .BracketBegin)
        [.leaf (t [37, 97] 5 .Comment), .leaf (t [10] 7 .MergedSpacer)] (t [93] 8 .BracketEnd)]
     [.mk none (t [123] 9 .GroupBegin) [.leaf (t [120] 10 .Text)] (t [125] 11 .GroupEnd)] [] [],
   .leaf (t [37, 98] 12 .Comment)]

/-- the payload `%` ↦ `%}{$\end` – closers, openers, a math switch, a backslash -/
def nasty (_ : Str) : Str := [37, 125, 123, 36, 92, 101, 110, 100]

example : WFD Tables.skipEnvNames exDoc = true ∧ verbOKS exDoc = true ∧ Separated none (toksD exDoc) ∧
    Separated none (toksD (mapCommentsD nasty exDoc)) ∧ goodPayload (nasty []) = true := by
  decide +kernel
example : treeD (mapCommentsD nasty exDoc) =
    [.cmd [102, 111, 111]
      [.group .bracket [.text [37, 125, 123, 36, 92, 101, 110, 100] 5, .text [10] 7] 4,
       .group .brace [.text [120] 10] 9] [] 0,
     .text [37, 125, 123, 36, 92, 101, 110, 100] 12] := by rfl
example : treeD (mapCommentsD nasty exDoc) = mapCommentTextsL nasty (treeD exDoc) :=
  tree_of_substituted nasty exDoc (separated_marked (prev := none) (by decide +kernel)) (by decide)
example : ∃ t2, parse false [] (flat (toksD (mapCommentsD nasty exDoc))) = .ok t2 ∧
    shapeL t2 = shapeL (mapCommentTextsL nasty (treeD exDoc)) :=
  (comment_payload_does_not_matter nasty (fun _ => by unfold nasty; decide) [] false exDoc (by decide)
    (by decide +kernel) (by decide)).2

/-- `verbOK` is needed: in `\begin{verbatim}%x\end{verbatim}` the body is one text node that
looks like a comment but is none. -/
def exVerb : Doc :=
  [.venv (t [92] 0 .Escape) (t sBegin 1 .CommandName)
     ⟨none, t [123] 6 .GroupBegin, t [118, 101, 114, 98, 97, 116, 105, 109] 7 .Text, t [125] 15 .GroupEnd⟩
     [] [] [] [t [37, 120] 16 .Comment]
     [t [92] 18 .Escape, t sEnd 19 .CommandName, t [123] 22 .GroupBegin,
      t [118, 101, 114, 98, 97, 116, 105, 109] 23 .Text, t [125] 31 .GroupEnd]]
example : WFD Tables.skipEnvNames exVerb = true ∧ verbOKS exVerb = false := by decide
example : treeD (mapCommentsD nasty exVerb) = treeD exVerb := by rfl

end TexSoup.C10G
