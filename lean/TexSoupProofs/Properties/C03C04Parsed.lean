import TexSoupProofs.Properties.C03
import TexSoupProofs.Properties.C04
import TexSoupProofs.Reader.Shape
/-!
# C03 / C04 for parsed documents

The path-annotated navigation and search theorems of `C03.lean` and `C04.lean` carry the side
condition `Expr.flatArgs` / `flatArgsL` (no argument has arguments of its own). The reader
returns only such trees (`parse_flatArgs`, `TexSoupProofs/Reader/Shape.lean`: every argument is
a group or a bare `TexCmd(name)`), so for a parsed document the side condition is replaced by
`parse tol skip s = .ok es`. Every theorem of the two files that has such a hypothesis is
instantiated here: at the root, and at every node of the document (the node at any path `p`,
`getAtRoot es p = some x`; a top-level element is the node at `[.body j]`).
-/
namespace TexSoup

/-- `flatArgs` is inherited by the node at every path. -/
theorem flatArgs_getAt {e : Expr} (h : e.flatArgs = true) {p : Path} {x : Expr}
    (hx : getAt e p = some x) : x.flatArgs = true := by
  induction p generalizing e with
  | nil =>
    simp only [getAt, Option.some.injEq] at hx
    subst hx; exact h
  | cons st p ih =>
    simp only [getAt] at hx
    cases hs : stepGet e st with
    | none => rw [hs] at hx; cases hx
    | some y =>
      rw [hs] at hx
      exact ih (flatArgs_step h hs) hx

/-- The root node of a parsed document satisfies the side condition. -/
theorem parse_flatArgs_root {tol : Bool} {skip : List Str} {s : Str} {es : List Expr}
    (h : parse tol skip s = .ok es) : (rootWrap es).flatArgs = true := by
  rw [flatArgs_rootWrap]; exact parse_flatArgs h

/-- Every node of a parsed document satisfies the side condition. -/
theorem parse_flatArgs_node {tol : Bool} {skip : List Str} {s : Str} {es : List Expr}
    (h : parse tol skip s = .ok es) {p : Path} {x : Expr} (hx : getAtRoot es p = some x) :
    x.flatArgs = true :=
  flatArgs_getAt (parse_flatArgs_root h) hx

/-- In particular every top-level element. -/
theorem parse_flatArgs_mem {tol : Bool} {skip : List Str} {s : Str} {es : List Expr}
    (h : parse tol skip s = .ok es) {x : Expr} (hx : x ∈ es) : x.flatArgs = true :=
  flatArgsL_mem (parse_flatArgs h) hx

end TexSoup

namespace TexSoup.C04
open TexSoup

variable {tol : Bool} {skip : List Str} {s : Str} {es : List Expr}

/-- `contents_map_snd` at every node of a parsed document. -/
theorem contents_map_snd_parsed (h : parse tol skip s = .ok es) {p : Path} {x : Expr}
    (hx : getAtRoot es p = some x) : (contentsP x).map Prod.snd = contentsOf x :=
  contents_map_snd (parse_flatArgs_node h hx)

/-- `contents_map_snd` at the root of a parsed document. -/
theorem contents_map_snd_root_parsed (h : parse tol skip s = .ok es) :
    (contentsP (rootWrap es)).map Prod.snd = contentsOf (rootWrap es) :=
  contents_map_snd (parse_flatArgs_root h)

/-- `desc_map_snd` at every node of a parsed document: the path-annotated `descendants` is
`descendants`. -/
theorem desc_map_snd_parsed (h : parse tol skip s = .ok es) {p : Path} {x : Expr}
    (hx : getAtRoot es p = some x) : (descP [] x).map Prod.snd = descOf x :=
  desc_map_snd (parse_flatArgs_node h hx)

/-- `desc_map_snd_root` for a parsed document. -/
theorem desc_map_snd_root_parsed (h : parse tol skip s = .ok es) :
    (descRootP es).map Prod.snd = descRoot es :=
  desc_map_snd_root (parse_flatArgs h)

end TexSoup.C04

namespace TexSoup.C03
open TexSoup

variable {tol : Bool} {skip : List Str} {s : Str} {es : List Expr}

/-- `findAll_name_occ` at every node of a parsed document. -/
theorem findAll_name_occ_parsed {n : Str} (hn : plainName n = true)
    (h : parse tol skip s = .ok es) {p : Path} {x : Expr} (hx : getAtRoot es p = some x) :
    (findAll (.name n) x).Perm ((occ n x).map Prod.snd) ∧ ((occ n x).map Prod.fst).Nodup :=
  findAll_name_occ hn (parse_flatArgs_node h hx)

/-- `findAll_name_occ_root` for a parsed document: searching the document by name returns
exactly the occurrences of the name, each once. -/
theorem findAll_name_occ_root_parsed {n : Str} (hn : plainName n = true)
    (h : parse tol skip s = .ok es) :
    (findAllRoot (.name n) es).Perm ((occRoot n es).map Prod.snd) ∧
      ((occRoot n es).map Prod.fst).Nodup :=
  findAll_name_occ_root hn (parse_flatArgs h)

/-- `findAll_name_order` at every node of a parsed document. -/
theorem findAll_name_order_parsed {n : Str} (hn : plainName n = true)
    (h : parse tol skip s = .ok es) {p : Path} {x : Expr} (hx : getAtRoot es p = some x) :
    findAll (.name n) x = ((descP [] x).filter (fun px => px.2.named n)).map Prod.snd :=
  findAll_name_order hn (parse_flatArgs_node h hx)

/-- `findAll_name_order` for a search of the whole parsed document. -/
theorem findAll_name_order_root_parsed {n : Str} (hn : plainName n = true)
    (h : parse tol skip s = .ok es) :
    findAllRoot (.name n) es = ((descRootP es).filter (fun px => px.2.named n)).map Prod.snd := by
  rw [findAll_root]
  exact findAll_name_order hn (parse_flatArgs_root h)

/-- `findAll_absent` at every node of a parsed document. -/
theorem findAll_absent_parsed {n : Str} (hn : plainName n = true)
    (h : parse tol skip s = .ok es) {p : Path} {x : Expr} (hx : getAtRoot es p = some x)
    (habs : ∀ q y, q ≠ [] → getAt x q = some y → y.isText = false → y.name ≠ n) :
    findAll (.name n) x = [] :=
  findAll_absent hn (parse_flatArgs_node h hx) habs

/-- `findAll_absent` for a search of the whole parsed document. -/
theorem findAll_absent_root_parsed {n : Str} (hn : plainName n = true)
    (h : parse tol skip s = .ok es)
    (habs : ∀ q y, q ≠ [] → getAtRoot es q = some y → y.isText = false → y.name ≠ n) :
    findAllRoot (.name n) es = [] := by
  rw [findAll_root]
  exact findAll_absent hn (parse_flatArgs_root h) habs

/-! ### Non-vacuity -/

/-- `\a{\b}[c]` -/
def exDoc : Str := [92, 97, 123, 92, 98, 125, 91, 99, 93]

def exTree : List Expr :=
  [.cmd [97] [.group .brace [.cmd [98] [] [] 3] 2, .group .bracket [.text [99] 7] 6] [] 0]

example : parse false [] exDoc = .ok exTree := by rfl
example : plainName [98] = true := by decide
example : getAtRoot exTree [.body 0] =
    some (.cmd [97] [.group .brace [.cmd [98] [] [] 3] 2, .group .bracket [.text [99] 7] 6] [] 0) :=
  rfl
example : findAllRoot (.name [98]) exTree = [.cmd [98] [] [] 3] := rfl
example : occRoot [98] exTree = [([.body 0, .arg 0 0], .cmd [98] [] [] 3)] := rfl
example : (findAllRoot (.name [98]) exTree).Perm ((occRoot [98] exTree).map Prod.snd) :=
  (findAll_name_occ_root_parsed (n := [98]) (by decide)
    (show parse false [] exDoc = .ok exTree by rfl)).1

/-- A bare command as mandatory argument, `\def\a b` (signature (2, 0)): the argument list is
a bare `TexCmd` and a made-up group, both without arguments. -/
example : parse false [] [92, 100, 101, 102, 92, 97, 32, 98] = .ok
    [.cmd [100, 101, 102] [.cmd [97] [] [] 4, .group .brace [.text [32, 98] (-1)] (-1)] [] 0] := by
  rfl

end TexSoup.C03
