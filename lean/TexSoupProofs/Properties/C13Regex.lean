import TexSoupProofs.Properties.C19
/-!
# C13 (iii) – offsets reported by `search_regex`

`search_regex` reports, for a match found at offset `k` inside the text of a text token at
recorded position `p`, the source offset `p + k`. Since a token's text is the slice of the
source at its recorded offset (`token_offsets`), the matched text stands at that source offset.
The regular-expression engine (which finds `k` and the length) is trusted, not modelled.
-/
namespace TexSoup.C13

theorem slice_of_slice (s : Str) (p n k l : Nat) (h : k + l ≤ n) :
    (((s.drop p).take n).drop k).take l = (s.drop (p + k)).take l := by
  rw [List.drop_take, List.take_take, List.drop_drop]
  congr 1
  omega

/-- a match inside a text token carries the true source offset -/
theorem match_offset {s : Str} {ts : List Tok} (h : tokenize s = some ts) (t : Tok) (ht : t ∈ ts)
    (k l : Nat) (hkl : k + l ≤ t.text.length) :
    (t.text.drop k).take l = (s.drop (t.pos + k)).take l := by
  have h1 := token_offsets h t ht
  rw [h1]
  exact slice_of_slice s t.pos t.text.length k l hkl

end TexSoup.C13
