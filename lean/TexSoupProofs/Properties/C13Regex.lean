import TexSoupProofs.Properties.C19
import TexSoupProofs.Properties.TokInverse
import TexSoupProofs.Reader.LeafSlices
import TexSoupModel.SearchRegex
/-!
# C13 (iii) – offsets reported by `search_regex`

`search_regex` reports, for a match found at offset `k` inside the text of a text token at
recorded position `p`, the source offset `p + k`. Since a token's text is the slice of the
source at its recorded offset (`token_offsets`), the matched text stands at that source offset.
The regular-expression engine (which finds `k` and the length) is not modelled: it is a
parameter `m : Str → List (Nat × Nat)` of the model `searchRegex` (`TexSoupModel/SearchRegex.lean`),
and the theorems hold for every `m`.

* `match_offset`: the token-level fact.
* `text_leaf_slice`: every text leaf of the `text` view of a parsed document with a recorded
  position (`0 ≤ q`) carries exactly the slice of the source at that position. A leaf is one
  token, or - the text child of a verbatim-like environment - a run of consecutive tokens
  (`parse_sliced`); the tokens are contiguous because the source has no NUL/DEL
  (`tokenize_separated`). The empty verbatim body (`''` at the offset of `\end`) is covered: the
  empty slice.
* `search_regex_offsets`: every match reported for a leaf with a recorded position stands in
  the source at the reported offset.

Exception, stated as the filter `0 ≤ x.pos` (and shown to be necessary by
`search_regex_bare_argument`): the text of the brace group made up for a bare-token mandatory
argument (`\def\a b`) has the default position `-1`, and `-1 + k` is not where it stands.
-/
namespace TexSoup.C13

theorem slice_of_slice (s : Str) (p n k l : Nat) (h : k + l ≤ n) :
    (((s.drop p).take n).drop k).take l = (s.drop (p + k)).take l := by
  rw [List.drop_take, List.take_take, List.drop_drop]
  congr 1
  omega

/-- a match inside a text token carries the true source offset -/
theorem match_offset {s : Str} {ts : List Tok} (h : tokenize s = some ts) (t : Tok) (ht : t ∈ ts)
    (k l : Nat) (hkl : k + l ≤ t.text.length) :
    (t.text.drop k).take l = (s.drop (t.pos + k)).take l := by
  have h1 := token_offsets h t ht
  rw [h1]
  exact slice_of_slice s t.pos t.text.length k l hkl


/-! ## Parsed trees -/

theorem running_of_positioned : ∀ {p : Nat} {ts : List Tok}, Positioned p ts → Running p ts
  | _, [], _ => trivial
  | _, _ :: _, h => ⟨h.1, running_of_positioned h.2⟩

variable {tol : Bool} {skip : List Str} {s : Str} {es : List Expr}

/-- Every leaf of the `text` view of a parsed document (no NUL/DEL in the source) that has a
recorded position carries exactly the slice of the source at that position. -/
theorem text_leaf_slice (hs : ∀ c ∈ s, isIgnored (catOf c) = false)
    (h : parse tol skip s = .ok es) :
    ∀ t q, .text t q ∈ textRoot es → 0 ≤ q → t = (s.drop q.toNat).take t.length := by
  intro t q hmem h0
  obtain ⟨ts, ht⟩ := tokenize_total s
  have hsl : SlicedL ts es := parse_sliced ht h
  obtain ⟨t', q', heq, hat⟩ := hsl.of_textList es _ hmem
  simp only [Expr.text.injEq] at heq
  obtain ⟨rfl, rfl⟩ := heq
  have := hat.slice h0 (running_of_positioned (tokenize_separated hs ht).2)
  rwa [tokenize_lossless hs ht] at this

/-- the same for the `text` view of any top-level node -/
theorem text_leaf_slice_node (hs : ∀ c ∈ s, isIgnored (catOf c) = false)
    (h : parse tol skip s = .ok es) {e : Expr} (he : e ∈ es) :
    ∀ t q, .text t q ∈ textOf e → 0 ≤ q → t = (s.drop q.toNat).take t.length := by
  intro t q hmem h0
  obtain ⟨ts, ht⟩ := tokenize_total s
  have hsl : SlicedL ts es := parse_sliced ht h
  have hse : Sliced ts e := SlicedL_mem hsl he
  obtain ⟨t', q', heq, hat⟩ := hse.of_textOf e _ hmem
  simp only [Expr.text.injEq] at heq
  obtain ⟨rfl, rfl⟩ := heq
  have := hat.slice h0 (running_of_positioned (tokenize_separated hs ht).2)
  rwa [tokenize_lossless hs ht] at this

theorem take_take_length (x : Str) (l : Nat) : x.take (x.take l).length = x.take l := by
  have e : (x.take l).take (x.take l).length = x.take l := List.take_length
  rw [List.take_take] at e
  have hle : (x.take l).length ≤ l := List.length_take_le l x
  rwa [Nat.min_eq_left hle] at e

/-- The offset arithmetic of `search_regex`: a match `(k, l)` (in bounds or not) inside a text
that is the slice of the source at `q` stands in the source at `q + k`. -/
theorem match_in_slice (s t : Str) (q k l : Nat) (ht : t = (s.drop q).take t.length) :
    (s.drop (q + k)).take ((t.drop k).take l).length = (t.drop k).take l := by
  have hlen : ((t.drop k).take l).length ≤ t.length - k := by
    simp only [List.length_take, List.length_drop]; omega
  by_cases hk : k ≤ t.length
  · generalize hl' : ((t.drop k).take l).length = l' at hlen ⊢
    have e : (t.drop k).take l = (t.drop k).take l' := by
      rw [← hl']; exact (take_take_length _ _).symm
    rw [e]
    have := slice_of_slice s q t.length k l' (by omega)
    rw [← ht] at this
    exact this.symm
  · have : t.drop k = [] := List.drop_eq_nil_of_le (by omega)
    simp [this]

/-- What `search_regex` reports. -/
theorem mem_searchRegexIn {m : Matcher} {leaves : List Expr} {pb : Int × Str} :
    pb ∈ searchRegexIn m leaves ↔
      ∃ t q k l, .text t q ∈ leaves ∧ (k, l) ∈ m t ∧ pb = (q + (k : Int), (t.drop k).take l) := by
  unfold searchRegexIn
  rw [List.mem_flatMap]
  constructor
  · rintro ⟨x, hx, hpb⟩
    cases x with
    | text t q =>
      simp only [searchLeaf, List.mem_map] at hpb
      obtain ⟨⟨k, l⟩, hkl, rfl⟩ := hpb
      exact ⟨t, q, k, l, hx, hkl, rfl⟩
    | cmd _ _ _ _ => simp [searchLeaf] at hpb
    | nenv _ _ _ _ => simp [searchLeaf] at hpb
    | math _ _ _ => simp [searchLeaf] at hpb
    | group _ _ _ => simp [searchLeaf] at hpb
  · rintro ⟨t, q, k, l, hx, hkl, rfl⟩
    refine ⟨.text t q, hx, ?_⟩
    simp only [searchLeaf, List.mem_map]
    exact ⟨(k, l), hkl, rfl⟩

/-- Leaf form: a match `(k, l)` found in a leaf of the `text` view with recorded position `q`
is reported at `q + k`, and the source carries the matched text there. -/
theorem search_regex_offsets_leaf (hs : ∀ c ∈ s, isIgnored (catOf c) = false)
    (h : parse tol skip s = .ok es) :
    ∀ t q, .text t q ∈ textRoot es → 0 ≤ q → ∀ k l : Nat,
      (s.drop (q + (k : Int)).toNat).take ((t.drop k).take l).length = (t.drop k).take l := by
  intro t q hmem h0 k l
  have hsl := text_leaf_slice hs h t q hmem h0
  have : (q + (k : Int)).toNat = q.toNat + k := by omega
  rw [this]
  exact match_in_slice s t q.toNat k l hsl

/-- **C13 (iii).** Every match reported by `search_regex` on a parsed document - for any
regular-expression engine `m`, strict or tolerant parse, source without NUL/DEL - for a text
leaf that has a recorded position carries the source offset at which the matched text
actually occurs. -/
theorem search_regex_offsets (hs : ∀ c ∈ s, isIgnored (catOf c) = false)
    (h : parse tol skip s = .ok es) (m : Matcher) :
    ∀ pb ∈ searchRegexIn m ((textRoot es).filter (fun x => decide (0 ≤ x.pos))),
      (s.drop pb.1.toNat).take pb.2.length = pb.2 := by
  intro pb hpb
  obtain ⟨t, q, k, l, hx, _, rfl⟩ := mem_searchRegexIn.1 hpb
  obtain ⟨hmem, h0⟩ := List.mem_filter.1 hx
  exact search_regex_offsets_leaf hs h t q hmem (of_decide_eq_true h0) k l

/-- If no leaf of the `text` view lacks a position (no bare-token argument), this is every
match `search_regex` reports. -/
theorem search_regex_offsets_all (hs : ∀ c ∈ s, isIgnored (catOf c) = false)
    (h : parse tol skip s = .ok es) (m : Matcher) (hpos : ∀ x ∈ textRoot es, 0 ≤ x.pos) :
    ∀ pb ∈ searchRegex m es, (s.drop pb.1.toNat).take pb.2.length = pb.2 := by
  intro pb hpb
  obtain ⟨t, q, k, l, hx, _, rfl⟩ := mem_searchRegexIn.1 hpb
  exact search_regex_offsets_leaf hs h t q hx (hpos _ hx) k l

/-- With an engine that reports in-bounds matches, the reported body has the reported length. -/
theorem search_regex_length {m : Matcher} (hm : InBounds m) {leaves : List Expr} {t : Str} {q : Int}
    {k l : Nat} (_hx : Expr.text t q ∈ leaves) (hkl : (k, l) ∈ m t) :
    ((t.drop k).take l).length = l := by
  have := hm t (k, l) hkl
  simp only [List.length_take, List.length_drop]
  simp only at this
  omega

/-! ### Non-vacuity -/

/-- `\a{bcd}$x$`: a leaf inside an argument and a leaf inside a math region -/
def rxDoc : Str := [92, 97, 123, 98, 99, 100, 125, 36, 120, 36]

def rxTree : List Expr :=
  [.cmd [97] [.group .brace [.text [98, 99, 100] 3] 2] [] 0, .math .dollar [.text [120] 8] 7]

/-- an engine that finds `cd` (at offset 1, length 2) in `bcd` and nothing elsewhere -/
def rxM : Matcher := fun t => if t == [98, 99, 100] then [(1, 2)] else []

example : ∀ c ∈ rxDoc, isIgnored (catOf c) = false := by decide +kernel
theorem rxDoc_parse : parse false [] rxDoc = .ok rxTree := by rfl
example : textRoot rxTree = [.text [98, 99, 100] 3, .text [120] 8] := by rfl
example : searchRegex rxM rxTree = [(4, [99, 100])] := by rfl
example : (rxDoc.drop 4).take 2 = [99, 100] := by rfl
example : (textRoot rxTree).filter (fun x => decide (0 ≤ x.pos)) = textRoot rxTree := by rfl
example : InBounds rxM := by
  intro t kl hkl
  unfold rxM at hkl
  by_cases ht : (t == [98, 99, 100]) = true
  · rw [if_pos ht] at hkl
    simp only [List.mem_singleton] at hkl
    have : t = [98, 99, 100] := by simpa using ht
    subst hkl this
    decide
  · rw [if_neg ht] at hkl; cases hkl

/-- The restriction to leaves with a recorded position is necessary: in `\def\a b` the text
` b` of the made-up group has position `-1`; a match of `b` at offset 1 is reported at offset
`0`, where the source carries `\`. -/
theorem search_regex_bare_argument :
    ∃ (s : Str) (es : List Expr) (m : Matcher),
      (∀ c ∈ s, isIgnored (catOf c) = false) ∧ parse false [] s = .ok es ∧ InBounds m ∧
      ¬ ∀ pb ∈ searchRegex m es, (s.drop pb.1.toNat).take pb.2.length = pb.2 := by
  refine ⟨[92, 100, 101, 102, 92, 97, 32, 98],
    [.cmd [100, 101, 102] [.cmd [97] [] [] 4, .group .brace [.text [32, 98] (-1)] (-1)] [] 0],
    fun t => if t == [32, 98] then [(1, 1)] else [], by decide +kernel, by rfl, ?_, ?_⟩
  · intro t kl hkl
    by_cases ht : (t == [32, 98]) = true
    · simp only [ht, if_true, List.mem_singleton] at hkl
      have : t = [32, 98] := by simpa using ht
      subst hkl this
      decide
    · simp only [ht, Bool.false_eq_true, if_false] at hkl; cases hkl
  · intro hall
    have := hall (0, [98]) (by decide)
    revert this
    decide

end TexSoup.C13
