import TexSoupProofs.Complete.Main
/-!
# C09 for documents of the grammar – a command takes exactly the argument groups written for it

A command written `\name` followed by bracket groups, then brace groups, each optionally after
one spacer token, is read with exactly these groups as arguments – kind, order, contents –
and what follows is left alone, *provided* what follows satisfies `Gram.runOK`
(`command_takes_its_groups`). The frame condition is also *necessary*: a brace group that
follows (after an optional spacer), a bracket group that follows while there is no brace group
yet, or a bracket group directly after the last brace group **is** taken as one more argument
(`following_brace_group_is_absorbed`, `following_bracket_group_is_absorbed`,
`tight_bracket_after_braces_is_absorbed`) – the reader's result is exhibited. What detaches a
group: a spacer in front of a `[` once a brace group has been read, or any token that is not a
spacer or the opener.
-/
namespace TexSoup.C09G
open TexSoup TexSoup.Gram

theorem toksA_append (a b : List Arg) : toksA (a ++ b) = toksA a ++ toksA b := by
  induction a with
  | nil => simp
  | cons x xs ih => simp [ih]

theorem treesA_append (k : GKind) (a b : List Arg) : treesA k (a ++ b) = treesA k a ++ treesA k b := by
  induction a with
  | nil => simp
  | cons x xs ih => simp [ih]

/-- **Attachment.** Brackets, then braces, each after an optional spacer (which is not part of
the tree); the tokens after the run are handed on untouched. -/
theorem command_takes_its_groups (skip : List Str) (tol : Bool) (m : Mode) (esc name : Tok)
    (a1 a2 : List Arg) (rest : List Tok) (f : Nat)
    (hwf : WF skip m (win rest) (.cmd esc name a1 a2 [] []) = true)
    (hf : 3 * (toks (.cmd esc name a1 a2 [] []) ++ rest).length + 1 ≤ f) :
    readExpr f skip tol m (esc :: name :: (toksA a1 ++ toksA a2) ++ rest) =
      .ok (.cmd (strip name.text) (treesA .bracket a1 ++ treesA .brace a2) [] esc.pos, rest) := by
  have h := readExpr_complete _ skip tol m rest f hwf hf
  simpa [toks, tree] using h

/-- The frame condition for such a run under an open signature, spelled out. -/
theorem runOK_open (sg : Int × Int) (hneg : sg.1 < 0 ∧ sg.2 < 0) (a1 a2 : List Arg) (nx : List Tok) :
    runOK sg a1 a2 [] [] nx =
      (match a2 with
       | [] => hdCat (afterSp nx) != some .BracketBegin && hdCat (afterSp nx) != some .GroupBegin
       | _ :: _ => hdCat nx != some .BracketBegin && hdCat (afterSp nx) != some .GroupBegin) := by
  unfold runOK
  rw [if_pos (by simp [hneg.1, hneg.2])]
  cases a2 <;> simp [tight]

/-- **Necessity, braces.** A brace group `g` that follows the run (after an optional spacer)
is one more argument: the tokens of `\name a1 a2` followed by the tokens of `g` are read as
`\name a1 (a2 ++ [g])`. -/
theorem following_brace_group_is_absorbed (skip : List Str) (tol : Bool) (m : Mode) (esc name : Tok)
    (a1 a2 : List Arg) (g : Arg) (rest : List Tok) (f : Nat)
    (hwf : WF skip m (win rest) (.cmd esc name a1 (a2 ++ [g]) [] []) = true)
    (hf : 3 * (toks (.cmd esc name a1 (a2 ++ [g]) [] []) ++ rest).length + 1 ≤ f) :
    readExpr f skip tol m (toks (.cmd esc name a1 a2 [] []) ++ (toksArg g ++ rest)) =
      .ok (.cmd (strip name.text) (treesA .bracket a1 ++ (treesA .brace a2 ++ [treeArg .brace g])) []
        esc.pos, rest) := by
  have h := readExpr_complete _ skip tol m rest f hwf hf
  simpa [toks, tree, toksA_append, treesA_append] using h

/-- **Necessity, brackets.** While there is no brace group yet, a bracket group that follows
(after an optional spacer) is one more optional argument. -/
theorem following_bracket_group_is_absorbed (skip : List Str) (tol : Bool) (m : Mode) (esc name : Tok)
    (a1 : List Arg) (g : Arg) (rest : List Tok) (f : Nat)
    (hwf : WF skip m (win rest) (.cmd esc name (a1 ++ [g]) [] [] []) = true)
    (hf : 3 * (toks (.cmd esc name (a1 ++ [g]) [] [] []) ++ rest).length + 1 ≤ f) :
    readExpr f skip tol m (toks (.cmd esc name a1 [] [] []) ++ (toksArg g ++ rest)) =
      .ok (.cmd (strip name.text) (treesA .bracket a1 ++ [treeArg .bracket g]) [] esc.pos, rest) := by
  have h := readExpr_complete _ skip tol m rest f hwf hf
  simpa [toks, tree, toksA_append, treesA_append] using h

/-- **Necessity, a bracket directly after the braces.** After the last brace group a `[` that
follows *immediately* still belongs to the command (third phase of `read_args`); with a spacer
in between it does not (`runOK_open`: only `hdCat nx`, not `hdCat (afterSp nx)`, is asked not
to be `[`). -/
theorem tight_bracket_after_braces_is_absorbed (skip : List Str) (tol : Bool) (m : Mode) (esc name : Tok)
    (a1 a2 : List Arg) (g : Arg) (rest : List Tok) (f : Nat)
    (hwf : WF skip m (win rest) (.cmd esc name a1 a2 [g] []) = true)
    (hf : 3 * (toks (.cmd esc name a1 a2 [g] []) ++ rest).length + 1 ≤ f) :
    readExpr f skip tol m (toks (.cmd esc name a1 a2 [] []) ++ (toksArg g ++ rest)) =
      .ok (.cmd (strip name.text) (treesA .bracket a1 ++ (treesA .brace a2 ++ [treeArg .bracket g])) []
        esc.pos, rest) := by
  have h := readExpr_complete _ skip tol m rest f hwf hf
  simpa [toks, tree] using h

/-! ## Non-vacuity -/

private def t (s : Str) (p : Nat) (c : TC) : Tok := ⟨s, p, c⟩
private def foo : Tok := t [102, 111, 111] 1 .CommandName
private def gA : Arg := .mk none (t [123] 4 .GroupBegin) [.leaf (t [97] 5 .Text)] (t [125] 6 .GroupEnd)
private def gB : Arg := .mk (some (t [32] 7 .MergedSpacer)) (t [123] 8 .GroupBegin) [.leaf (t [98] 9 .Text)]
  (t [125] 10 .GroupEnd)
private def bC : Arg := .mk (some (t [32] 7 .MergedSpacer)) (t [91] 8 .BracketBegin) [.leaf (t [99] 9 .Text)]
  (t [93] 10 .BracketEnd)

/-- `\foo{a} {b}`: written as command-with-one-argument followed by a free group, it is not
well-formed – and read as the command with two arguments. -/
example : WFD [] [.cmd (t [92] 0 .Escape) foo [] [gA] [] [],
    .leaf (t [32] 7 .MergedSpacer),
    .group (t [123] 8 .GroupBegin) [.leaf (t [98] 9 .Text)] (t [125] 10 .GroupEnd)] = false := by decide
example : WFD [] [.cmd (t [92] 0 .Escape) foo [] [gA, gB] [] []] = true := by decide
example : readTex 30 [] false (toksD [.cmd (t [92] 0 .Escape) foo [] [gA] [] [],
    .leaf (t [32] 7 .MergedSpacer),
    .group (t [123] 8 .GroupBegin) [.leaf (t [98] 9 .Text)] (t [125] 10 .GroupEnd)]) =
    .ok [.cmd [102, 111, 111] [.group .brace [.text [97] 5] 4, .group .brace [.text [98] 9] 8] [] 0] := by rfl

/-- `\foo{a} [c]`: the spacer detaches the bracket – three elements, all well-formed. -/
example : WFD [] [.cmd (t [92] 0 .Escape) foo [] [gA] [] [],
    .leaf (t [32] 7 .MergedSpacer), .leaf (t [91] 8 .BracketBegin), .leaf (t [99] 9 .Text),
    .leaf (t [93] 10 .BracketEnd)] = true := by decide
/-- … while `\foo [c]` (no brace group yet) takes it. -/
example : WFD [] [.cmd (t [92] 0 .Escape) foo [] [] [] [],
    .leaf (t [32] 7 .MergedSpacer), .leaf (t [91] 8 .BracketBegin), .leaf (t [99] 9 .Text),
    .leaf (t [93] 10 .BracketEnd)] = false := by decide
example : WFD [] [.cmd (t [92] 0 .Escape) foo [bC] [] [] []] = true := by decide

end TexSoup.C09G
