import TexSoupProofs.Sound.EnvNamesCheck
import TexSoupProofs.Properties.C16Grammar
import TexSoupProofs.Properties.C19
/-!
# C02, converse direction – the grammar is exhaustive: every representable strict parse is the
tree of a well-formed document; and C16 for all strictly parsing inputs

Completeness (`C02.tree_mirrors_document`) says: the reader returns `treeD d` on the tokens of a
well-formed document `d`. Here the converse (`TexSoupProofs/Sound`, an invariant of all twelve
reader functions by induction on the fuel): whatever `read_tex` returns **in strict mode** on a
token list is `treeD d` for a well-formed `d` with exactly these tokens, provided the input is
*representable* (`grammar_exhaustive`):

 * on the result tree, decidable (`Gram.repL .nonMath es`):
   – no made-up arguments (the certificate reasons `made-up-argument`,
     `bare-command-as-argument`);
   – a command with a fixed signature has exactly `required` brace groups (this only excludes a
     command cut off by the end of input, `\def` at the end; the continuation argument
     `\section{a}[b]` – an optional argument read in the second pass of `read_args` – is part of
     the grammar, `Gram.runOK`);
 * on the tokens: no backslash at the very end (`NoTrailingEscape`); the argument after
   `\begin` / `\end` is `{`, one text token, `}` (`EnvNamesSimple`; reason
   `env-name-several-tokens`); the token after a backslash is its own `strip()`, and `\end{name}`
   of a verbatim-like environment is spelled by five tokens – both hold for tokenizer output
   (`Gram.shyp_of_tokenize`).

Every frame condition of `Gram.WF` – `runOK`, `startOK`, `itemStop`, `noEarly`, the names of
`\begin`/`\end`, the look-ahead clause – is *implied* by the reader's success under these side
conditions: the grammar is not stricter than the reader anywhere else. (The look-ahead clause –
`\begin{equation}\in{x}\end{equation}`: the group after the argument-less command is first read
in math mode by the look-ahead of `read_env` – follows from the success of that very look-ahead,
`Gram.peekCond_of_peek`: math-mode results are non-math-mode results, `readArg_math_nonMath`,
and math-mode well-formedness implies non-math-mode well-formedness, `Gram.WFs_mle`.)

From source text: `parse_sound`. Payoff: **C16 for all strictly parsing inputs**
(`C16.reparse_fixed_point_all`): the serialised text re-parses to a tree of the same shape and
the same text; what remains as side conditions are the property's own (no bare sizing prefix
as a command name, finding F4b: `\begin{ a }`).
-/
namespace TexSoup.C02
open TexSoup TexSoup.Gram

/-- **Exhaustiveness of the grammar (token level).** -/
theorem grammar_exhaustive (skip : List Str) (ts : List Tok) (es : List Expr)
    (h : readTex (parseFuel ts) skip false ts = .ok es) (hy : SHyp skip ts)
    (hrep : repL .nonMath es = true) :
    ∃ d : Doc, toksD d = ts ∧ WFD skip d = true ∧ treeD d = es := by
  obtain ⟨d, h1, h2, h3⟩ := readTex_sound skip _ ts es h hy hrep
  exact ⟨d, h1, h3, h2⟩

/-- The invariant behind it, for every reader function and every fuel. -/
theorem reader_sound (skip0 : List Str) (f : Nat) : SoundAt skip0 f := soundAt skip0 f

/-- **Exhaustiveness from source text**: a strictly parsing, representable input *is* (the text
of) a well-formed document of the grammar, and its tree is the document's tree. -/
theorem parse_sound (skip : List Str) (s : Str) (es : List Expr)
    (hs : ∀ c ∈ s, isIgnored (catOf c) = false) (h : parse false skip s = .ok es)
    (hskip : ∀ n, memStr n skip = true → PlainEnvName n)
    (henv : ∀ ts, tokenize s = some ts → EnvNamesSimple ts ∧ NoTrailingEscape ts)
    (hrep : repL .nonMath es = true) :
    ∃ d : Doc, tokenize s = some (toksD d) ∧ flat (toksD d) = s ∧
      WFD (Tables.skipEnvNames ++ skip) d = true ∧ treeD d = es := by
  obtain ⟨ts, ht⟩ := tokenize_total s
  unfold parse at h
  rw [ht] at h
  simp only at h
  have hy : SHyp (Tables.skipEnvNames ++ skip) ts :=
    shyp_of_tokenize hs ht (fun n hn => by
      rcases C08.memStr_append hn with h1 | h1
      · exact skipEnvNames_memStr_plain n h1
      · exact hskip n h1) (henv ts ht).1 (henv ts ht).2
  obtain ⟨d, h1, h2, h3⟩ := grammar_exhaustive _ ts es h hy hrep
  exact ⟨d, by rw [h1]; exact ht, by rw [h1]; exact tokenize_lossless hs ht, h2, h3⟩

/-- … and completeness closes the circle: on such an input both tolerance modes return the
same tree (no closer is ever invented on a strictly parsing representable input). -/
theorem strict_parse_is_tolerant_parse (skip : List Str) (s : Str) (es : List Expr)
    (hs : ∀ c ∈ s, isIgnored (catOf c) = false) (h : parse false skip s = .ok es)
    (hskip : ∀ n, memStr n skip = true → PlainEnvName n)
    (henv : ∀ ts, tokenize s = some ts → EnvNamesSimple ts ∧ NoTrailingEscape ts)
    (hrep : repL .nonMath es = true) : parse true skip s = .ok es := by
  obtain ⟨d, ht, _, hwf, htr⟩ := parse_sound skip s es hs h hskip henv hrep
  rw [← htr]
  exact parse_complete true skip s d ht hwf

end TexSoup.C02

namespace TexSoup.C16
open TexSoup TexSoup.Gram

/-- **C16 for all strictly parsing inputs.** If `s` (free of NUL/DEL) parses strictly to a
representable tree, no command name is a bare sizing prefix and environment names are written
plainly after `\begin`, then the serialised text re-parses – in both tolerance modes – to a
tree of the same shape that serialises to the same text. -/
theorem reparse_fixed_point_all (tol : Bool) (skip : List Str) (s : Str) (es : List Expr)
    (hs : ∀ c ∈ s, isIgnored (catOf c) = false) (h : parse false skip s = .ok es)
    (hskip : ∀ n, memStr n skip = true → PlainEnvName n)
    (henv : ∀ ts, tokenize s = some ts → EnvNamesSimple ts ∧ NoTrailingEscape ts ∧ BeginPlain ts ∧
      C16G.noBareSizing ts = true)
    (hrep : repL .nonMath es = true) :
    ∃ t2, parse tol skip (serL es) = .ok t2 ∧ shapeL t2 = shapeL es ∧ serL t2 = serL es := by
  obtain ⟨d, ht, _, hwf, htr⟩ := C02.parse_sound skip s es hs h hskip
    (fun ts hts => ⟨(henv ts hts).1, (henv ts hts).2.1⟩) hrep
  obtain ⟨_, _, hbp, hsz⟩ := henv _ ht
  have hsep : Separated none (toksD d) := (tokenize_separated hs ht).1
  have hen : envNamesPlainS d = true := envPlainS_of_tokens d _ _ _ _ hwf hbp
  rw [← htr]
  exact C16G.reparse_fixed_point_of_source tol skip d hwf hen hsep hsz

end TexSoup.C16

namespace TexSoup.C02
open TexSoup TexSoup.Gram

/-! ## Non-vacuity -/

/-- without `\begin`/`\end` the condition on environment names is vacuous -/
theorem envNamesSimple_of_noEnv {ts : List Tok} (h : noEnvB ts = true) : EnvNamesSimple ts :=
  fun pre esc n r he hesc _ _ _ _ _ _ hn =>
    absurd (hn.elim (fun h => .inl h.1) (fun h => .inr h.1)) (noEnvB_sound ts h pre esc n r he hesc)

theorem noTrailingEscape_of_last {ts : List Tok} (h : ∀ t ∈ ts.getLast?, t.cat ≠ .Escape) :
    NoTrailingEscape ts := by
  intro pre esc he
  subst he
  exact h esc (by simp)

/-- `\foo [a] {b}x` -/
def srcSpaced2 : Str := [92, 102, 111, 111, 32, 91, 97, 93, 32, 123, 98, 125, 120]
def treeSpaced2 : List Expr :=
  [.cmd [102, 111, 111] [.group .bracket [.text [97] 6] 5, .group .brace [.text [98] 10] 9] [] 0, .text [120] 12]

example : repL .nonMath treeSpaced2 = true := by decide
example : parse false [] srcSpaced2 = .ok treeSpaced2 →
    ∃ d : Doc, tokenize srcSpaced2 = some (toksD d) ∧ flat (toksD d) = srcSpaced2 ∧
      WFD (Tables.skipEnvNames ++ []) d = true ∧ treeD d = treeSpaced2 := fun h =>
  parse_sound [] srcSpaced2 treeSpaced2 (by decide) h (by intro n hn; simp [memStr] at hn)
    (by
      intro ts hts
      have : ts = [⟨[92], 0, .Escape⟩, ⟨[102, 111, 111], 1, .CommandName⟩, ⟨[32], 4, .MergedSpacer⟩,
          ⟨[91], 5, .BracketBegin⟩, ⟨[97], 6, .Text⟩, ⟨[93], 7, .BracketEnd⟩, ⟨[32], 8, .MergedSpacer⟩,
          ⟨[123], 9, .GroupBegin⟩, ⟨[98], 10, .Text⟩, ⟨[125], 11, .GroupEnd⟩, ⟨[120], 12, .Text⟩] := by
        have h0 : tokenize srcSpaced2 = some [⟨[92], 0, .Escape⟩, ⟨[102, 111, 111], 1, .CommandName⟩,
          ⟨[32], 4, .MergedSpacer⟩, ⟨[91], 5, .BracketBegin⟩, ⟨[97], 6, .Text⟩, ⟨[93], 7, .BracketEnd⟩,
          ⟨[32], 8, .MergedSpacer⟩, ⟨[123], 9, .GroupBegin⟩, ⟨[98], 10, .Text⟩, ⟨[125], 11, .GroupEnd⟩,
          ⟨[120], 12, .Text⟩] := by decide +kernel
        rw [h0] at hts; exact (Option.some.inj hts).symm
      subst this
      exact ⟨envNamesSimple_of_noEnv (by decide), noTrailingEscape_of_last (by decide)⟩)
    (by decide)

/-- the last token is no backslash -/
def noTrailingEscapeB (ts : List Tok) : Bool :=
  match ts.getLast? with
  | some t => t.cat != .Escape
  | none => true

theorem noTrailingEscape_of_check {ts : List Tok} (h : noTrailingEscapeB ts = true) : NoTrailingEscape ts := by
  apply noTrailingEscape_of_last
  intro t ht
  unfold noTrailingEscapeB at h
  rw [Option.mem_def.mp ht] at h
  simpa using h

/-- **Exhaustiveness with evaluable side conditions only**: a Boolean check of the tree
(`repL`) and two Boolean checks of the tokens (`envNamesShapeB`: after `\begin`/`\end` an
optional spacer, `{`, one token, `}`; `noTrailingEscapeB`). -/
theorem parse_sound_of_checks (skip : List Str) (s : Str) (es : List Expr)
    (hs : ∀ c ∈ s, isIgnored (catOf c) = false) (h : parse false skip s = .ok es)
    (hskip : ∀ n, memStr n skip = true → PlainEnvName n)
    (hchk : ∀ ts, tokenize s = some ts → envNamesShapeB ts = true ∧ noTrailingEscapeB ts = true)
    (hrep : repL .nonMath es = true) :
    ∃ d : Doc, tokenize s = some (toksD d) ∧ flat (toksD d) = s ∧
      WFD (Tables.skipEnvNames ++ skip) d = true ∧ treeD d = es :=
  parse_sound skip s es hs h hskip
    (fun ts hts => ⟨envNamesSimple_of_shape (hchk ts hts).1, noTrailingEscape_of_check (hchk ts hts).2⟩) hrep

/-- `\begin{itemize}\item a $x$\item[b] c\end{itemize}` (the document `exList` of C02): all side
conditions evaluate to true. -/
example : repL .nonMath (treeD exList) = true ∧ envNamesShapeB (toksD exList) = true ∧
    noTrailingEscapeB (toksD exList) = true := by decide +kernel

/-- The side conditions on the tree bite: `\def` at the end of input parses (no arguments) but
is not representable. `\in{x}` in the body of `equation` is (the look-ahead case). -/
example : repL .nonMath [.cmd [100, 101, 102] [] [] 0] = false := by decide
example : repL .nonMath [.nenv [101, 113, 117, 97, 116, 105, 111, 110] []
    [.cmd [105, 110] [] [] 16, .group .brace [.text [120] 20] 19] 0] = true := by decide
example : repL .nonMath [.nenv [97] []
    [.cmd [105, 110] [] [] 9, .group .brace [.text [120] 13] 12] 0] = true := by decide

/-! ### The look-ahead case: `\begin{equation}\in{x}\end{equation}` -/

private def tk (s : Str) (p : Nat) (c : TC) : Tok := ⟨s, p, c⟩
private def sEquation : Str := [101, 113, 117, 97, 116, 105, 111, 110]

/-- `\begin{equation}\in{x}\end{equation}`: the group `{x}` is first read (and dropped) by the
look-ahead of `read_env`, in math mode, as an argument of `\in`. -/
def exEqn : Doc :=
  [.env (tk [92] 0 .Escape) (tk sBegin 1 .CommandName)
    ⟨none, tk [123] 6 .GroupBegin, tk sEquation 7 .Text, tk [125] 15 .GroupEnd⟩ [] [] []
    [.cmd (tk [92] 16 .Escape) (tk [105, 110] 17 .CommandName) [] [] [] [],
     .group (tk [123] 19 .GroupBegin) [.leaf (tk [120] 20 .Text)] (tk [125] 21 .GroupEnd)]
    (tk [92] 22 .Escape) (tk sEnd 23 .CommandName)
    ⟨none, tk [123] 26 .GroupBegin, tk sEquation 27 .Text, tk [125] 35 .GroupEnd⟩]

def srcEqn : Str := [92, 98, 101, 103, 105, 110, 123, 101, 113, 117, 97, 116, 105, 111, 110, 125, 92,
  105, 110, 123, 120, 125, 92, 101, 110, 100, 123, 101, 113, 117, 97, 116, 105, 111, 110, 125]

example : tokenize srcEqn = some (toksD exEqn) := by rfl
example : WFD Tables.skipEnvNames exEqn = true := by decide
/-- all side conditions of `parse_sound_of_checks` hold for it (the tree is representable) -/
example : repL .nonMath (treeD exEqn) = true ∧ envNamesShapeB (toksD exEqn) = true ∧
    noTrailingEscapeB (toksD exEqn) = true := by decide +kernel

/-! ### A continuation argument of a fixed signature: `\section{a}[b][c]` -/

/-- `\section{a}[b][c]`: `[b]` is the optional argument of `\section` (signature `(1, 1)`), read
in the second pass of `read_args` directly behind the brace group; `[c]` stays text. -/
def exSection : Doc :=
  [.cmd (tk [92] 0 .Escape) (tk [115, 101, 99, 116, 105, 111, 110] 1 .CommandName) []
     [.mk none (tk [123] 8 .GroupBegin) [.leaf (tk [97] 9 .Text)] (tk [125] 10 .GroupEnd)]
     [.mk none (tk [91] 11 .BracketBegin) [.leaf (tk [98] 12 .Text)] (tk [93] 13 .BracketEnd)] [],
   .leaf (tk [91] 14 .BracketBegin), .leaf (tk [99] 15 .Text), .leaf (tk [93] 16 .BracketEnd)]

def srcSection : Str := [92, 115, 101, 99, 116, 105, 111, 110, 123, 97, 125, 91, 98, 93, 91, 99, 93]

example : tokenize srcSection = some (toksD exSection) := by rfl
example : WFD Tables.skipEnvNames exSection = true := by decide
example : parse false [] srcSection =
    .ok [.cmd [115, 101, 99, 116, 105, 111, 110]
          [.group .brace [.text [97] 9] 8, .group .bracket [.text [98] 12] 11] [] 0,
         .text [91] 14, .text [99] 15, .text [93] 16] :=
  parse_complete false [] srcSection exSection (by rfl) (by decide)
example : repL .nonMath (treeD exSection) = true ∧ envNamesShapeB (toksD exSection) = true ∧
    noTrailingEscapeB (toksD exSection) = true := by decide +kernel
/-- with a spacer in front the bracket is not an argument -/
example : WFD Tables.skipEnvNames
  [.cmd (tk [92] 0 .Escape) (tk [115, 101, 99, 116, 105, 111, 110] 1 .CommandName) []
     [.mk none (tk [123] 8 .GroupBegin) [.leaf (tk [97] 9 .Text)] (tk [125] 10 .GroupEnd)]
     [.mk (some (tk [32] 11 .MergedSpacer)) (tk [91] 12 .BracketBegin) [.leaf (tk [98] 13 .Text)]
       (tk [93] 14 .BracketEnd)] []] = false := by decide

end TexSoup.C02
