import TexSoupProofs.Properties.C08
/-!
# C16 – Serialised output is a fixed point of the parser

For every input that parses in strict mode, re-parsing the serialised text succeeds, produces
a tree of identical shape and serialises to the identical text. (Side conditions as in C08,
and a sizing prefix is immediately followed by its delimiter.)

Proved here: the case in which no spacer stands directly before an opener – then the output
*is* the input (C08), so the second parse is the first one. The general case
(`fixpoint_squeeze`: the dropped spacers do not disturb neighbouring tokens, and the reader
takes the same decisions on the squeezed token list) is explored by the oracle on every run
and listed as partial.
-/
namespace TexSoup.C16

/-- No spacer before an opener: serialising reproduces the source exactly. -/
theorem output_is_input (skip : List Str) (s : Str) (es : List Expr)
    (hs : ∀ c ∈ s, isIgnored (catOf c) = false) (h : parse false skip s = .ok es)
    (hskip : ∀ n, memStr n skip = true → PlainEnvName n)
    (henv : ∀ ts, tokenize s = some ts → C08.EnvNamesPlain ts) (hnb : noBareL es = true)
    (hsp : ∀ ts, tokenize s = some ts → noSpacerBeforeOpener ts = true) : serL es = s := by
  obtain ⟨ts, ht, hflat, hd, _⟩ := C08.conservation_string skip s es hs h hskip henv hnb
  rw [← hflat]
  exact hd.strict_exact (hsp ts ht)

/-- ... hence re-parsing the output gives the identical tree and text: load-save-load-save
does not drift. -/
theorem fixpoint_nodrop (skip : List Str) (s : Str) (es : List Expr)
    (hs : ∀ c ∈ s, isIgnored (catOf c) = false) (h : parse false skip s = .ok es)
    (hskip : ∀ n, memStr n skip = true → PlainEnvName n)
    (henv : ∀ ts, tokenize s = some ts → C08.EnvNamesPlain ts) (hnb : noBareL es = true)
    (hsp : ∀ ts, tokenize s = some ts → noSpacerBeforeOpener ts = true) :
    parse false skip (serL es) = .ok es ∧
      ∀ es', parse false skip (serL es) = .ok es' → serL es' = serL es := by
  have hout := output_is_input skip s es hs h hskip henv hnb hsp
  refine ⟨by rw [hout]; exact h, ?_⟩
  intro es' h'
  rw [hout, h] at h'
  cases h'
  rfl

/-- A second serialisation never grows: in strict mode the output is a sublist of its input. -/
theorem second_pass_sublist (skip : List Str) (es es2 : List Expr)
    (hs : ∀ c ∈ serL es, isIgnored (catOf c) = false) (h2 : parse false skip (serL es) = .ok es2)
    (hskip : ∀ n, memStr n skip = true → PlainEnvName n)
    (henv : ∀ ts, tokenize (serL es) = some ts → C08.EnvNamesPlain ts) (hnb : noBareL es2 = true) :
    (serL es2).Sublist (serL es) := by
  obtain ⟨_, _, _, _, hsub⟩ := C08.conservation_string skip (serL es) es2 hs h2 hskip henv hnb
  exact hsub

/-! Non-vacuity: `\a{b}` satisfies the hypotheses of `fixpoint_nodrop`'s conclusion. -/
example : parse false [] [92, 97, 123, 98, 125] = .ok [.cmd [97] [.group .brace [.text [98] 3] 2] [] 0] ∧
    serL [.cmd [97] [.group .brace [.text [98] 3] 2] [] 0] = [92, 97, 123, 98, 125] := ⟨by rfl, by rfl⟩

end TexSoup.C16
