import TexSoupProofs.TokLemmas
/-!
# Further facts about the tokenizer

* `firstMatch_perm`, `punctuationCommands_prefixFree` — the sizing-command lookup does not
  depend on the iteration order of the Python `set` (used for C17, hash-seed independence);
* `first_*` — what one `next_token` pass returns for given leading characters;
* `after_escape` — a lone backslash is followed by a command-name token without whitespace.

Helper lemmas live in `TexSoupProofs/TokLemmas/*.lean`.
-/
namespace TexSoup

/-! ## 6. Order independence of the sizing-command lookup -/

/-- For a prefix-free table, taking the first matching entry gives the same answer for every
ordering of the table. -/
theorem firstMatch_perm {tbl tbl' : List Str} (hpf : PrefixFree tbl) (hp : tbl'.Perm tbl)
    (rest : Str) : firstMatch tbl' rest = firstMatch tbl rest :=
  firstMatch_perm' hpf hp rest

/-- The generated table `PUNCTUATION_COMMANDS` is prefix-free. -/
theorem punctuationCommands_prefixFree : PrefixFree Tables.punctuationCommands :=
  punctuationCommands_prefixFree'

/-- Instance: the reversed table finds the same sizing command. -/
example (rest : Str) :
    firstMatch Tables.punctuationCommands.reverse rest =
      firstMatch Tables.punctuationCommands rest :=
  firstMatch_perm punctuationCommands_prefixFree (List.reverse_perm _) rest

/-- A table that is *not* prefix-free really is order dependent (`big` / `bigg`). -/
example : firstMatch [[98, 105, 103], [98, 105, 103, 103]] [98, 105, 103, 103, 40] ≠
    firstMatch [[98, 105, 103, 103], [98, 105, 103]] [98, 105, 103, 103, 40] := by decide

/-! ## 7. First-token lemmas -/

/-- (a) An escape character followed by an escapable character (`\%`, `\$`, `\\`, `\{`, …) is a
single `EscapedComment` token: such pairs are never comments, math switches or groups. -/
theorem first_escaped (pt : Option TC) (prev : Option Ch) (pos : Nat) (c0 c1 : Ch) (r : Str)
    (h0 : catOf c0 = .Escape) (h1 : isEscapable (catOf c1) = true) :
    pass Tables.tokenizerOrder pt ⟨prev, pos, c0 :: c1 :: r⟩ =
      .tok ⟨[c0, c1], pos, .EscapedComment⟩ ⟨some c1, pos + 2, r⟩ :=
  pass_escaped pt prev pos c0 c1 r h0 h1

example : catOf 92 = .Escape ∧ isEscapable (catOf 37) = true ∧ isEscapable (catOf 36) = true ∧
    isEscapable (catOf 92) = true ∧ isEscapable (catOf 123) = true := by decide

/-- (b) A comment character starts a `Comment` token consisting of it and the longest run of
non-end-of-line characters (whatever the previous token was). -/
theorem first_comment (pt : Option TC) (prev : Option Ch) (pos : Nat) (c0 : Ch) (r : Str)
    (h0 : catOf c0 = .Comment) :
    pass Tables.tokenizerOrder pt ⟨prev, pos, c0 :: r⟩ =
      .tok ⟨c0 :: r.takeWhile (fun c => catOf c != .EndOfLine), pos, .Comment⟩
        ⟨lastD (r.takeWhile (fun c => catOf c != .EndOfLine)) (some c0),
         pos + (1 + (r.takeWhile (fun c => catOf c != .EndOfLine)).length),
         r.dropWhile (fun c => catOf c != .EndOfLine)⟩ :=
  pass_comment pt prev pos c0 r h0

example : catOf 37 = .Comment := by decide

/-- (c₁) Two math-switch characters are one `DisplayMathSwitch` token. -/
theorem first_mathSwitch_two (pt : Option TC) (prev : Option Ch) (pos : Nat) (c0 c1 : Ch) (r : Str)
    (h0 : catOf c0 = .MathSwitch) (h1 : catOf c1 = .MathSwitch) :
    pass Tables.tokenizerOrder pt ⟨prev, pos, c0 :: c1 :: r⟩ =
      .tok ⟨[c0, c1], pos, .DisplayMathSwitch⟩ ⟨some c1, pos + 2, r⟩ :=
  pass_mathSwitch_two pt prev pos c0 c1 r h0 h1

/-- (c₂) A math-switch character not followed by another one is a `MathSwitch` token. -/
theorem first_mathSwitch_one (pt : Option TC) (prev : Option Ch) (pos : Nat) (c0 : Ch) (r : Str)
    (h0 : catOf c0 = .MathSwitch) (h1 : ∀ c1 ∈ r.head?, catOf c1 ≠ .MathSwitch) :
    pass Tables.tokenizerOrder pt ⟨prev, pos, c0 :: r⟩ =
      .tok ⟨[c0], pos, .MathSwitch⟩ ⟨some c0, pos + 1, r⟩ :=
  pass_mathSwitch_one pt prev pos c0 r h0 h1

example : catOf 36 = .MathSwitch ∧ ∀ c1 ∈ ([120, 36] : Str).head?, catOf c1 ≠ .MathSwitch := by
  decide

/-- (d) An escape followed by `[`, `]`, `(` or `)` is the corresponding two-character
math-group token (`asymSwitch` lists exactly those four). -/
theorem first_asymSwitch (pt : Option TC) (prev : Option Ch) (pos : Nat) (c0 c1 : Ch) (r : Str)
    (t : TC) (h0 : catOf c0 = .Escape) (h1 : asymSwitch (catOf c1) = some t) :
    pass Tables.tokenizerOrder pt ⟨prev, pos, c0 :: c1 :: r⟩ =
      .tok ⟨[c0, c1], pos, t⟩ ⟨some c1, pos + 2, r⟩ :=
  pass_asymSwitch pt prev pos c0 c1 r t h0 h1

example : catOf 92 = .Escape ∧ asymSwitch (catOf 91) = some .DisplayMathGroupBegin ∧
    asymSwitch (catOf 93) = some .DisplayMathGroupEnd ∧
    asymSwitch (catOf 40) = some .MathGroupBegin ∧
    asymSwitch (catOf 41) = some .MathGroupEnd := by decide

/-- (e) A brace or square bracket is a one-character token of the corresponding kind
(`symbolOf` lists `{`, `}`, `[`, `]` and the escape, which is excluded here). -/
theorem first_symbol (pt : Option TC) (prev : Option Ch) (pos : Nat) (c0 : Ch) (r : Str) (t : TC)
    (h0 : catOf c0 ≠ .Escape) (hs : symbolOf (catOf c0) = some t) :
    pass Tables.tokenizerOrder pt ⟨prev, pos, c0 :: r⟩ =
      .tok ⟨[c0], pos, t⟩ ⟨some c0, pos + 1, r⟩ :=
  pass_symbol pt prev pos c0 r t h0 hs

example : catOf 123 ≠ .Escape ∧ symbolOf (catOf 123) = some .GroupBegin ∧
    symbolOf (catOf 125) = some .GroupEnd ∧ symbolOf (catOf 91) = some .BracketBegin ∧
    symbolOf (catOf 93) = some .BracketEnd := by decide

/-- (f) An escape at the end of the input, or followed by a character that is neither
escapable nor a bracket/parenthesis, is a one-character `Escape` token. -/
theorem first_escape (pt : Option TC) (prev : Option Ch) (pos : Nat) (c0 : Ch) (r : Str)
    (h0 : catOf c0 = .Escape)
    (h1 : ∀ c1 ∈ r.head?, isEscapable (catOf c1) = false ∧ asymSwitch (catOf c1) = none) :
    pass Tables.tokenizerOrder pt ⟨prev, pos, c0 :: r⟩ =
      .tok ⟨[c0], pos, .Escape⟩ ⟨some c0, pos + 1, r⟩ :=
  pass_escape pt prev pos c0 r h0 h1

example : catOf 92 = .Escape ∧
    ∀ c1 ∈ ([98, 102, 123] : Str).head?,
      isEscapable (catOf c1) = false ∧ asymSwitch (catOf c1) = none := by decide

/-- (g) Right after an escape character, a letter that does not start a sizing command starts
a `CommandName` token made of the longest run of letters and `*`. -/
theorem first_commandName (pt : Option TC) (p : Ch) (pos : Nat) (c0 : Ch) (r : Str)
    (hp : catOf p = .Escape) (h0 : catOf c0 = .Letter)
    (hfm : firstMatch Tables.punctuationCommands (c0 :: r) = none) :
    pass Tables.tokenizerOrder pt ⟨some p, pos, c0 :: r⟩ =
      .tok ⟨c0 :: r.takeWhile (fun c => isLetterCh c || c == 42), pos, .CommandName⟩
        ⟨lastD (r.takeWhile (fun c => isLetterCh c || c == 42)) (some c0),
         pos + (1 + (r.takeWhile (fun c => isLetterCh c || c == 42)).length),
         r.dropWhile (fun c => isLetterCh c || c == 42)⟩ :=
  pass_commandName pt p pos c0 r hp h0 hfm

example : catOf 92 = .Escape ∧ catOf 98 = .Letter ∧
    firstMatch Tables.punctuationCommands [98, 102, 42, 123] = none := by decide +kernel

/-- (h) Right after an escape character, a sizing command (`left(`, `Big\{`, …) is one
`PunctuationCommandName` token, whatever the iteration order of the table. -/
theorem first_punctuation (pt : Option TC) (p : Ch) (pos : Nat) (point r : Str)
    (hp : catOf p = .Escape) (hm : point ∈ Tables.punctuationCommands) :
    pass Tables.tokenizerOrder pt ⟨some p, pos, point ++ r⟩ =
      .tok ⟨point, pos, .PunctuationCommandName⟩ ⟨lastD point (some p), pos + point.length, r⟩ :=
  pass_punctuation pt p pos point r hp hm

example : catOf 92 = .Escape ∧ [108, 101, 102, 116, 40] ∈ Tables.punctuationCommands := by
  decide +kernel

/-! ## 8. What follows a lone backslash -/

/-- In the token list of a string without ignored characters, every `Escape` token is either
the last token or immediately followed by a `CommandName` or `PunctuationCommandName` token
whose text contains no whitespace, so that `strip` is the identity on it. -/
theorem after_escape {s : Str} {ts : List Tok} (hs : ∀ c ∈ s, isIgnored (catOf c) = false)
    (h : tokenize s = some ts) (pre : List Tok) (t : Tok) (post : List Tok)
    (hsplit : ts = pre ++ t :: post) (ht : t.cat = .Escape) :
    post = [] ∨ ∃ u post', post = u :: post' ∧
      (u.cat = .CommandName ∨ u.cat = .PunctuationCommandName) ∧
      (∀ c ∈ u.text, isSpaceCh c = false) ∧ strip u.text = u.text := by
  cases post with
  | nil => exact Or.inl rfl
  | cons u post' =>
    right
    have hf : EscFollow none ts :=
      tokLoop_escFollow (tokFuel s) none ⟨none, 0, s⟩ hs (by simp) h
    rw [hsplit] at hf
    have hg := hf.split ht
    exact ⟨u, post', rfl, hg.1, hg.2, strip_of_no_space hg.2⟩

example : (∀ c ∈ ([92, 98, 102, 32, 92, 108, 101, 102, 116, 40, 92] : Str),
      isIgnored (catOf c) = false) ∧
    tokenize [92, 98, 102, 32, 92, 108, 101, 102, 116, 40, 92] = some
      ([] ++ ⟨[92], 0, .Escape⟩ :: [⟨[98, 102], 1, .CommandName⟩, ⟨[32], 3, .MergedSpacer⟩,
        ⟨[92], 4, .Escape⟩, ⟨[108, 101, 102, 116, 40], 5, .PunctuationCommandName⟩,
        ⟨[92], 10, .Escape⟩]) := by decide +kernel

end TexSoup
