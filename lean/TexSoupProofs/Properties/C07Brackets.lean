import TexSoupProofs.Reader.Progress
import TexSoupProofs.Properties.C06
/-!
# C07 (b) for a lost closing BRACKET – where the clause holds and where not

"… a well-formed document that has lost one closing brace, bracket or `\end{name}`: strict
parsing reports an error and tolerant parsing succeeds."

For braces and `\end{name}` this is `C07b.lost_closer` (a counting argument: every `{` needs its
`}`). Brackets cannot be counted: `[` and `]` that are no optional argument are plain text.
What is true, and proved here on the reader functions:

 * `readArgBody_closer` / `readArg_closer`: an argument group that is read in strict mode ends
   at a closer token of its kind – the strict reader never returns from an argument body at the
   end of the input or anywhere else;
 * `readArgOpt_commits`: at a `[` (after an optional spacer) behind a command that takes optional
   arguments the reader is *committed*: if no `]` token follows in the rest of the input, reading
   the optional argument does not succeed in strict mode – it is one of the diagnostic errors (or
   out of fuel), `readArgOpt_commits_error`. A `}` does **not** end the search: inside an unclosed
   `[` a closing brace is a text leaf (`read_expr` keeps a stray closer), so the condition is about
   the whole rest of the input, not about the enclosing group;
 * `lost_bracket_counterexample`: with a later `]` the clause is FALSE – `\x[a]b]c` is well-formed
   (the second `]` is text); without the first `]` the text `\x[ab]c` parses strictly, the stray
   `]` closes the argument. Tolerant parsing succeeds as well.
 * `lost_bracket_example`: `\x[ab` and `{\x[ab}c` (no `]` later): strict parsing reports an error,
   tolerant parsing succeeds.

**Not proved** (what a document-level theorem "for every well-formed document …" still needs):
that the error of `readArgOpt` at the damaged command propagates to `parse`. Every strict reader
function propagates errors (`Res.bind`), but to reach the damaged command the elements in front
of it have to be read exactly at every enclosing level (five loops, the argument runs and the two
look-aheads): "prefix read back, then error" versions of the completeness lemmas of
`Complete/`, which do not exist yet. The counting proofs of `Reader/Balance.lean` do not transfer
(brackets are not balanced in well-formed documents).
-/
namespace TexSoup.C07b
open TexSoup

theorem suf_mem {ts rest : List Tok} (h : Suf ts rest) {t : Tok} (ht : t ∈ rest) : t ∈ ts := by
  obtain ⟨c, rfl⟩ := h
  exact List.mem_append_right _ ht

/-- **A strictly read argument body ends at a closer of its kind.** -/
theorem readArgBody_closer : ∀ (f : Nat) (k : GKind) (mode : Mode) (ts : List Tok) (es : List Expr)
    (rest : List Tok), readArgBody f k false mode ts = .ok (es, rest) → ∃ t ∈ ts, t.cat = k.tokEnd := by
  intro f
  induction f with
  | zero => intro k mode ts es rest h; simp [readArgBody] at h
  | succ f ih =>
    intro k mode ts es rest h
    unfold readArgBody at h
    cases ts with
    | nil => simp at h
    | cons t r =>
      simp only at h
      by_cases hend : (t.cat == k.tokEnd) = true
      · exact ⟨t, List.mem_cons_self, by simpa using hend⟩
      · rw [if_neg hend] at h
        obtain ⟨e, ts1, he, h⟩ := Res.bind_eq_ok.mp h
        obtain ⟨es', ts2, hb, _⟩ := Res.bind_eq_ok.mp h
        obtain ⟨u, hu, hc⟩ := ih k mode ts1 es' ts2 hb
        exact ⟨u, suf_mem (readExpr_ssuf he).suf hu, hc⟩

theorem readArg_closer (f : Nat) (k : GKind) (pos : Int) (mode : Mode) (ts : List Tok) (e : Expr)
    (rest : List Tok) (h : readArg f k pos false mode ts = .ok (e, rest)) : ∃ t ∈ ts, t.cat = k.tokEnd := by
  cases f with
  | zero => simp [readArg] at h
  | succ f =>
    unfold readArg at h
    obtain ⟨b, ts1, hb, _⟩ := Res.bind_eq_ok.mp h
    exact readArgBody_closer f k mode ts b ts1 hb

/-- **At a `[` the strict reader is committed**: the command still takes optional arguments
(`n ≠ 0`), the next token after an optional spacer is `[`, and no `]` token follows – then
reading the optional arguments does not succeed. -/
theorem readArgOpt_commits (f : Nat) (n : Int) (mode : Mode) (ts : List Tok) (o : Tok) (r : List Tok)
    (hn : n ≠ 0) (hts : (readSpacer ts).2 = o :: r) (ho : o.cat = .BracketBegin)
    (hno : ∀ t ∈ r, t.cat ≠ .BracketEnd) :
    ∀ x, readArgOpt f n false mode ts ≠ .ok x := by
  intro x h
  cases f with
  | zero => simp [readArgOpt] at h
  | succ f =>
    unfold readArgOpt at h
    have hn' : (n == 0) = false := by simpa using hn
    simp only [hn', Bool.false_eq_true, if_false, hts, ho, beq_self_eq_true, if_true] at h
    obtain ⟨g, ts1, hg, _⟩ := Res.bind_eq_ok.mp h
    obtain ⟨t, ht, hc⟩ := readArg_closer f .bracket _ mode r g ts1 hg
    exact hno t ht hc

/-- … hence, with the totality of the reader, what it reports is an error. -/
theorem readArgOpt_commits_error (f : Nat) (n : Int) (mode : Mode) (ts : List Tok) (o : Tok) (r : List Tok)
    (hn : n ≠ 0) (hts : (readSpacer ts).2 = o :: r) (ho : o.cat = .BracketBegin)
    (hno : ∀ t ∈ r, t.cat ≠ .BracketEnd) : ∃ e, readArgOpt f n false mode ts = .error e := by
  cases h : readArgOpt f n false mode ts with
  | error e => exact ⟨e, rfl⟩
  | ok x => exact absurd h (readArgOpt_commits f n mode ts o r hn hts ho hno x)

/-- **Document level, the command at the beginning of the input**: `\name`, an optional spacer,
`[`, and no `]` token in the rest of the input; `name` is neither `item`/`begin` nor a command
without optional arguments. Strict parsing does not succeed. -/
theorem lost_bracket_at_start (skip : List Str) (s : Str) (esc name o : Tok) (ts r : List Tok)
    (ht : tokenize s = some (esc :: name :: ts)) (hesc : esc.cat = .Escape)
    (hopt : (cmdSig (-1) (-1) name.text).2 ≠ 0)
    (hts : (readSpacer ts).2 = o :: r) (ho : o.cat = .BracketBegin)
    (hno : ∀ t ∈ r, t.cat ≠ .BracketEnd) : ∀ es, parse false skip s ≠ .ok es := by
  intro es h
  unfold parse at h
  rw [ht] at h
  simp only at h
  obtain ⟨f, hf⟩ : ∃ f, parseFuel (esc :: name :: ts) = f + 4 := ⟨4 * (esc :: name :: ts).length + 4, by
    simp [parseFuel]⟩
  rw [hf] at h
  unfold readTex at h
  simp only at h
  cases hE : readExpr (f + 3) (Tables.skipEnvNames ++ skip) false .nonMath (esc :: name :: ts) with
  | ok v =>
    exfalso
    unfold readExpr at hE
    simp only [hesc, beq_self_eq_true, if_true] at hE
    obtain ⟨na, ts1, hc, _⟩ := Res.bind_eq_ok.mp hE
    unfold readCommand at hc
    simp only at hc
    obtain ⟨args, ts2, ha, _⟩ := Res.bind_eq_ok.mp hc
    unfold readArgs at ha
    have hz : ((cmdSig (-1) (-1) name.text).1 == 0 && (cmdSig (-1) (-1) name.text).2 == 0) = false := by
      have : ((cmdSig (-1) (-1) name.text).2 == 0) = false := by simpa using hopt
      rw [this]; simp
    simp only [hz, Bool.false_eq_true, if_false] at ha
    obtain ⟨an1, ts3, h1, _⟩ := Res.bind_eq_ok.mp ha
    exact readArgOpt_commits f _ _ ts o r hopt hts ho hno _ h1
  | error e => rw [hE] at h; cases h

/-! ## The clause is false when a stray `]` follows -/

/-- `\x[a]b]c` – well-formed: the second `]` is text. -/
def srcStray : Str := [92, 120, 91, 97, 93, 98, 93, 99]
/-- … without its first `]`: `\x[ab]c` -/
def srcStrayLost : Str := [92, 120, 91, 97, 98, 93, 99]

/-- **Counterexample to clause (b) for brackets.** The original parses strictly to the command
with the argument `[a]` followed by the texts `b`, `]`, `c`; after the loss of the closing bracket
of the argument the text STILL parses strictly (the stray `]` closes the argument: `[ab]`, then
`c`) – no error is reported. Tolerant parsing succeeds, too. -/
theorem lost_bracket_counterexample :
    (match parse false [] srcStray with
      | .ok [.cmd n [.group .bracket [.text a _] _] [] _, .text b _, .text c _, .text d _] => (n, a, b, c, d)
      | _ => ([], [], [], [], [])) = ([120], [97], [98], [93], [99]) ∧
    (match parse false [] srcStrayLost with
      | .ok [.cmd n [.group .bracket [.text a _] _] [] _, .text c _] => (n, a, c)
      | _ => ([], [], [])) = ([120], [97, 98], [99]) ∧
    (parse true [] srcStrayLost).toBool = true := by
  decide +kernel

/-! ## … and holds in the examples without one -/

/-- `\x[ab` and `{\x[ab}c` -/
def srcLost1 : Str := [92, 120, 91, 97, 98]
def srcLost2 : Str := [123, 92, 120, 91, 97, 98, 125, 99]

theorem lost_bracket_example :
    (parse false [] srcLost1).toBool = false ∧ (parse true [] srcLost1).toBool = true ∧
    (parse false [] srcLost2).toBool = false ∧ (parse true [] srcLost2).toBool = true := by
  decide +kernel

/-- `lost_bracket_at_start` applies to `\x[ab`. -/
example : ∀ es, parse false [] srcLost1 ≠ .ok es :=
  lost_bracket_at_start [] srcLost1 ⟨[92], 0, .Escape⟩ ⟨[120], 1, .CommandName⟩ ⟨[91], 2, .BracketBegin⟩
    [⟨[91], 2, .BracketBegin⟩, ⟨[97, 98], 3, .Text⟩] [⟨[97, 98], 3, .Text⟩] (by rfl) rfl (by decide) (by rfl) rfl
    (by decide)

end TexSoup.C07b
