import TexSoupProofs.Properties.C01Grammar
import TexSoupModel.GrammarRecognize
/-!
# What a certificate certifies (round trip)

The driver request `cert` looks for a grammar document `d` for a source string and evaluates
Boolean conditions on it. `C02.cert_sound` gives the meaning of `toks ∧ wf`; here the meaning of
`toks ∧ wf ∧ canon ∧ adj`: the source parses to `treeD d` and the tree prints as the text of the
tokens (C01 for this input). `adjacentS` is the Boolean form of `squeezeD d = d`,
`positionedB` of `Positioned`.
-/
namespace TexSoup.Gram
open TexSoup

mutual
theorem squeeze_of_adjacent : ∀ e : Elem, adjacent e = true → squeeze e = e
  | .leaf t, _ => by simp [squeeze]
  | .group o b c, h => by
      simp only [adjacent] at h
      simp [squeeze, squeezeS_of_adjacent b h]
  | .math k o b c, h => by
      simp only [adjacent] at h
      simp [squeeze, squeezeS_of_adjacent b h]
  | .cmd e n a1 a2 a3 a4, h => by
      simp only [adjacent, Bool.and_eq_true] at h
      simp [squeeze, squeezeA_of_adjacent a1 h.1.1.1, squeezeA_of_adjacent a2 h.1.1.2,
        squeezeA_of_adjacent a3 h.1.2, squeezeA_of_adjacent a4 h.2]
  | .item e n a1 a2 a3 a4 b, h => by
      simp only [adjacent, Bool.and_eq_true] at h
      simp [squeeze, squeezeA_of_adjacent a1 h.1.1.1.1, squeezeA_of_adjacent a2 h.1.1.1.2,
        squeezeA_of_adjacent a3 h.1.1.2, squeezeA_of_adjacent a4 h.1.2, squeezeS_of_adjacent b h.2]
  | .env e bg nm a2 a3 a4 b e2 en nm2, h => by
      simp only [adjacent, Bool.and_eq_true, Option.isNone_iff_eq_none] at h
      obtain ⟨⟨⟨⟨⟨h1, h2⟩, h3⟩, h4⟩, h5⟩, h6⟩ := h
      have e1 : nm.squeeze = nm := by cases nm; simp_all [NameArg.squeeze]
      have e2' : nm2.squeeze = nm2 := by cases nm2; simp_all [NameArg.squeeze]
      simp [squeeze, e1, e2', squeezeA_of_adjacent a2 h2, squeezeA_of_adjacent a3 h3,
        squeezeA_of_adjacent a4 h4, squeezeS_of_adjacent b h5]
  | .venv e bg nm a2 a3 a4 vb e5, h => by
      simp only [adjacent, Bool.and_eq_true, Option.isNone_iff_eq_none] at h
      obtain ⟨⟨⟨h1, h2⟩, h3⟩, h4⟩ := h
      have e1 : nm.squeeze = nm := by cases nm; simp_all [NameArg.squeeze]
      simp [squeeze, e1, squeezeA_of_adjacent a2 h2, squeezeA_of_adjacent a3 h3,
        squeezeA_of_adjacent a4 h4]
theorem squeezeS_of_adjacent : ∀ es : List Elem, adjacentS es = true → squeezeS es = es
  | [], _ => by simp
  | e :: es, h => by
      simp only [adjacentS, Bool.and_eq_true] at h
      simp [squeeze_of_adjacent e h.1, squeezeS_of_adjacent es h.2]
theorem squeezeArg_of_adjacent : ∀ a : Arg, adjacentArg a = true → squeezeArg a = a
  | .mk sp o b c, h => by
      simp only [adjacentArg, Bool.and_eq_true, Option.isNone_iff_eq_none] at h
      simp [squeezeArg, h.1, squeezeS_of_adjacent b h.2]
theorem squeezeA_of_adjacent : ∀ as : List Arg, adjacentA as = true → squeezeA as = as
  | [], _ => by simp
  | a :: as, h => by
      simp only [adjacentA, Bool.and_eq_true] at h
      simp [squeezeArg_of_adjacent a h.1, squeezeA_of_adjacent as h.2]
end

theorem squeezeD_of_adjacent (d : Doc) (h : adjacentS d = true) : squeezeD d = d :=
  squeezeS_of_adjacent d h

theorem positioned_of_positionedB : ∀ (p : Nat) (ts : List Tok), positionedB p ts = true → Positioned p ts
  | _, [], _ => trivial
  | p, t :: r, h => by
      simp only [positionedB, Bool.and_eq_true, beq_iff_eq] at h
      exact ⟨h.1, positioned_of_positionedB _ r h.2⟩

end TexSoup.Gram

namespace TexSoup.C01G
open TexSoup TexSoup.Gram

/-- **Meaning of a certificate with `canon` and `adj`**: the source parses to `treeD d`, and the
tree prints as the text of the document's tokens – which are the tokens of the source. -/
theorem cert_sound (tol : Bool) (skip : List Str) (s : Str) (ts : List Tok) (d : Doc)
    (ht : tokenize s = some ts) (htoks : (toksD d == ts) = true)
    (hwf : WFD (Tables.skipEnvNames ++ skip) d = true)
    (hcanon : canonD d = true) (hadj : adjacentS d = true) :
    parse tol skip s = .ok (treeD d) ∧ serL (treeD d) = flat ts := by
  have h : toksD d = ts := eq_of_beq htoks
  refine ⟨C02.cert_sound tol skip s ts d ht htoks hwf, ?_⟩
  rw [serL_treeD d hcanon, squeezeD_of_adjacent d hadj, h]

end TexSoup.C01G
