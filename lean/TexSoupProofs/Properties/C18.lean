import TexSoupModel.Args
import TexSoupProofs.ArgsSpec
import TexSoupProofs.ArgsLemmas
/-!
# C18 – argument lists behave like Python lists of groups

Model: `TexSoupModel/Args.lean` (`Args.step`, the class as it is, `.all` and object
identities included). Specification: `TexSoupProofs/ArgsSpec.lean` (`specStep` on a bare list
of objects plus the allocation counter). Abstraction `abs st = (st.lst, st.next)`; invariant
`Inv`: only group/command objects in the list, and `.all` contains every list element *as an
object*, counted with multiplicity.

History of what the proofs and the oracles forced into the open (the `Legacy` namespaces keep
the old code and the witnesses):
* `insert` with a negative or too large index raised after inserting
  (`Legacy.insert_breaks_list_semantics`);
* `pop` returned the first *textual twin* kept in `.all`, not the list item
  (`Legacy.pop_returns_textual_twin`);
* `.all` was kept in step by text: twins ended up in the wrong place
  (`Legacy2.insert_misplaced_twin`) and `remove(x)` of something that is in `.all` but not in
  the list deleted it from `.all` before raising (`Legacy2.remove_mutated_all_before_raising`).
With the current code every output is exactly the list's (`step_refines`) and a failed
operation changes neither the list nor `.all` (`failed_ops_keep_state`); only a failing
`extend` keeps the items before the offending one, as a Python loop does
(`extend_failure_keeps_prefix`).
-/
namespace TexSoup
namespace C18
open ArgsSpec ArgsLemmas ArgsLemmas.Examples

/-- **One step refines the list.** For every state satisfying the invariant and *every*
operation with *every* integer index/bound: the class returns exactly what the list returns
(a returned item is the list's own item – the same object, not merely an equal text), the
new list is the list's new value (`abs` commutes), and the invariant is preserved. A
returned slice is the sliced list and itself a well-formed `TexArgs`. -/
theorem step_refines (st : ArgsSt) (op : ArgsOp) (h : Inv st) :
    abs (Args.step st op).1 = (specStep (abs st) op).1 ∧
    Inv (Args.step st op).1 ∧
    OutRel SameObj (Args.step st op).2 (specStep (abs st) op).2 := by
  have := step_core st op h
  exact ⟨this.1, this.2.1, outRel_mono (fun _ _ hr => hr.1) this.2.2⟩
example : Inv (ArgsSt.empty 0) := inv_empty 0
example : (Args.step stAB (.insert (-7) (.str sY))).1.lst = [⟨.made 2, eY⟩, gA, gB] ∧
    (specStep (abs stAB) (.insert (-7) (.str sY))).1 = ([⟨.made 2, eY⟩, gA, gB], 3) := ⟨rfl, rfl⟩

/-- **Returned items are the list's own items, for every operation**: the output component
of `step_refines` on its own. -/
theorem step_output_exact (st : ArgsSt) (op : ArgsOp) (h : Inv st) :
    OutRel SameObj (Args.step st op).2 (specStep (abs st) op).2 :=
  (step_refines st op h).2.2
example : (Args.step stAB (.getItem (-1))).2 = .item (.grp gB) ∧
    (Args.step stAB (.pop 0)).2 = .item (.grp gA) := ⟨rfl, rfl⟩

/-- **`pop` on the witness of the former deviation**: with two textually equal groups that
are different objects (source positions 3 and 7), `pop(1)` returns the item at index 1
(position 7), as `list.pop` does, and it is that object which leaves `.all`. -/
theorem pop_returns_list_item_on_witness :
    let g3 : Obj := ⟨.ext 3, .group .brace [.text [97] (-1)] 3⟩
    let g7 : Obj := ⟨.ext 7, .group .brace [.text [97] (-1)] 7⟩
    let st := (Args.construct [.grp g3, .grp g7]).1
    st = ⟨[g3, g7], [.grp g3, .grp g7], 0⟩ ∧
    Args.step st (.pop 1) = (⟨[g3], [.grp g3], 0⟩, .item (.grp g7)) ∧
    specStep (abs st) (.pop 1) = (([g3], 0), .item g7) :=
  ⟨rfl, rfl, rfl⟩

/-- **Histories.** From any state satisfying the invariant (in particular the empty
`TexArgs()`), every finite sequence of operations yields pointwise identical outputs, the
same final list, and a final state satisfying the invariant. -/
theorem run_refines (st : ArgsSt) (ops : List ArgsOp) (h : Inv st) :
    abs (Args.run st ops).1 = (specRun (abs st) ops).1 ∧
    Inv (Args.run st ops).1 ∧
    OutsRel SameObj (Args.run st ops).2 (specRun (abs st) ops).2 := by
  induction ops generalizing st with
  | nil => exact ⟨rfl, h, trivial⟩
  | cons op ops ih =>
    have hs := step_refines st op h
    have hr := ih (Args.step st op).1 hs.2.1
    simp only [Args.run, specRun]
    rw [← hs.1]
    exact ⟨hr.1, hr.2.1, hs.2.2, hr.2.2⟩
example : (Args.run (.empty 0) [.append (.str sA), .insert 5 (.str sB), .remove (.str sA), .pop (-1)]).2
    = [.none, .none, .none, .item (.grp gB)] := rfl

/-- **`.all` holds every list element as an object** (new with the identity-based
book-keeping): after any history from `TexArgs()`, every object is in `.all` at least as often
as it is in the list – in particular every list element is found in `.all` by `is`. Texts play
no part. -/
theorem all_holds_every_list_object (n : Nat) (ops : List ArgsOp) :
    let st := (Args.run (.empty n) ops).1
    (∀ id : Oid, st.lst.countP (fun o => o.id == id) ≤ st.all.countP (ArgItem.isObj id)) ∧
    (∀ o ∈ st.lst, ∃ it ∈ st.all, it.isObj o.id = true) := by
  intro st
  have hinv : Inv st := (run_refines (.empty n) ops (inv_empty n)).2.1
  refine ⟨hinv.objs, fun o ho => ?_⟩
  rcases List.countP_pos_iff.mp (obj_in_all hinv ho) with ⟨it, hit, hp⟩
  exact ⟨it, hit, hp⟩
example : (Args.run (.empty 0) [.append (.str sA), .append (.str sA), .append (.str [91, 98, 93])]).1.all
    = [.grp ⟨.made 0, eA⟩, .grp ⟨.made 1, eA⟩, .grp ⟨.made 2, .group .bracket [.text [98] (-1)] (-1)⟩] :=
  rfl

/-- **The invariant survives an in-place edit of an argument's contents.** If some object
gets a new value (still a group or command) wherever it is referenced, the state still
satisfies the invariant – so `step_refines` keeps applying afterwards: the book-keeping
never relies on the text an argument had when it was inserted. -/
theorem inv_survives_content_edit (st : ArgsSt) (id : Oid) (e' : Expr) (h : Inv st)
    (he : isArgObj e' = true) : Inv (Args.editObj st id e') :=
  inv_edit h id e' he
-- TexArgs(['{a}','{a}']); the second group is edited to '{b}'; pop(1) still returns it and
-- removes *it* from `.all`
example : Args.step (Args.editObj (Args.construct [.str sA, .str sA]).1 (.made 1) eB) (.pop 1)
    = (⟨[⟨.made 0, eA⟩], [.grp ⟨.made 0, eA⟩], 2⟩, .item (.grp ⟨.made 1, eB⟩)) := rfl

/-- **Extending by an argument list (a `TexArgs` object, not a plain Python list) is list
concatenation.** `a.extend(b)` for the argument list `b` of another command, and
`a.extend(a[lo:hi])` for a slice of `a` itself, never raise, append the *list* elements of the
source in list order – the same objects –, leave the source alone and keep the invariant.
The source's shadow list `.all` (whose order need not be the list order) plays no part. -/
theorem extend_by_args_refines (a b : ArgsSt) (ha : Inv a) (hb : Inv b) (lo hi : Option Int) :
    (∃ a', Args.stepPair ⟨a, b⟩ (.extendBy false) = (⟨a', b⟩, .none) ∧
      a'.lst = a.lst ++ b.lst ∧ Inv a') ∧
    (∃ a', Args.step a (.extendSlice lo hi) = (a', .none) ∧
      a'.lst = a.lst ++ specSlice a.lst lo hi ∧ Inv a') := by
  constructor
  · rcases extendBy_char a b ha hb with ⟨a', h1, h2, _, h4, _⟩
    exact ⟨a', by simp [Args.stepPair, h1], h2, h4⟩
  · rcases extendSlice_char a lo hi ha with ⟨a', h1, h2, _, h4, _⟩
    exact ⟨a', h1, h2, h4⟩
-- other = TexArgs(['{a}']) then insert(0, '[b]'): its `.all` is {a},[b], its list [b],{a};
-- target.extend(other) receives [b],{a}
example :
    let oth := (Args.run (.empty 0) [.append (.str sA), .insert 0 (.str [91, 98, 93])]).1
    oth.all.map ArgItem.txt = [sA, [91, 98, 93]] ∧
    (Args.stepPair ⟨.empty 0, oth⟩ (.extendBy false)).1.tgt.lst.map (fun o => ser o.e)
      = [[91, 98, 93], sA] := ⟨rfl, rfl⟩
example : (Args.step stAB (.extendSlice (some (-1)) none)).1.lst = [gA, gB, gB] := rfl

/-- **Extending an argument list by itself doubles it**, as `l.extend(l)` does for a Python
list: no exception, `a.lst ++ a.lst` (the same objects again), invariant kept – and it is the
same as extending by the full slice `a[:]`. (Before the repair "TexArgs.extend(itself) never
terminated" the implementation looped over the list it was growing; a regression shows up in
the correspondence run as a hang.) -/
theorem extend_by_self_refines (a : ArgsSt) (ha : Inv a) :
    (∃ a', Args.step a .extendSelf = (a', .none) ∧ a'.lst = a.lst ++ a.lst ∧ Inv a') ∧
    Args.step a .extendSelf = Args.step a (.extendSlice none none) := by
  rcases extendSelf_char a ha with ⟨a', h1, h2, _, h4, _⟩
  exact ⟨⟨a', h1, h2, h4⟩, extendSelf_eq_extendSlice a ha⟩
example : (Args.step stAB .extendSelf).1.lst = [gA, gB, gA, gB] := rfl

/-- **One step of a history over two argument lists refines two Python lists**: operations on
either list (`step_refines`) and extending either by the other. -/
theorem stepPair_refines (s : Args.PairSt) (op : Args.PairOp) (h : InvPair s) :
    absPair (Args.stepPair s op).1 = (specStepPair (absPair s) op).1 ∧
    InvPair (Args.stepPair s op).1 ∧
    OutRel SameObj (Args.stepPair s op).2 (specStepPair (absPair s) op).2 := by
  rcases h with ⟨ht, ho⟩
  cases op with
  | on other op =>
    cases other with
    | false =>
      have := step_refines (Args.syncNext s.tgt s.oth) op (inv_next ht _)
      exact ⟨by simp only [Args.stepPair, specStepPair, absPair]; rw [this.1]; rfl,
        ⟨this.2.1, ho⟩, this.2.2⟩
    | true =>
      have := step_refines (Args.syncNext s.oth s.tgt) op (inv_next ho _)
      exact ⟨by simp only [Args.stepPair, specStepPair, absPair]; rw [this.1]; rfl,
        ⟨ht, this.2.1⟩, this.2.2⟩
  | extendBy other =>
    cases other with
    | false =>
      rcases extendBy_char s.tgt s.oth ht ho with ⟨a', h1, h2, h3, h4, _⟩
      simp only [Args.stepPair, specStepPair, absPair, h1]
      exact ⟨by simp [abs, h2, h3], ⟨h4, ho⟩, trivial⟩
    | true =>
      rcases extendBy_char s.oth s.tgt ho ht with ⟨a', h1, h2, h3, h4, _⟩
      simp only [Args.stepPair, specStepPair, absPair, h1]
      exact ⟨by simp [abs, h2, h3], ⟨ht, h4⟩, trivial⟩
example : InvPair ⟨.empty 0, .empty 0⟩ := ⟨inv_empty 0, inv_empty 0⟩

/-- **Histories over two argument lists.** -/
theorem runPair_refines (s : Args.PairSt) (ops : List Args.PairOp) (h : InvPair s) :
    absPair (Args.runPair s ops).1 = (specRunPair (absPair s) ops).1 ∧
    InvPair (Args.runPair s ops).1 ∧
    OutsRel SameObj (Args.runPair s ops).2 (specRunPair (absPair s) ops).2 := by
  induction ops generalizing s with
  | nil => exact ⟨rfl, h, trivial⟩
  | cons op ops ih =>
    have hs := stepPair_refines s op h
    have hr := ih (Args.stepPair s op).1 hs.2.1
    simp only [Args.runPair, specRunPair]
    rw [← hs.1]
    exact ⟨hr.1, hr.2.1, hs.2.2, hr.2.2⟩
-- \src: a:{a}, i:0:[b];  \dst: a:{a};  dst.extend(src)  ->  {a}[b]{a}
example : ((Args.runPair ⟨.empty 0, .empty 0⟩
      [.on true (.append (.str sA)), .on true (.insert 0 (.str [91, 98, 93])),
       .on false (.append (.str sA)), .extendBy false]).1.tgt.lst.map fun o => ser o.e)
    = [sA, [91, 98, 93], sA] := rfl

/-- **The pool of the property is closed.** If everything stored is a group made from a
string (`TexGroup.parse`, position `-1`) or a blank string, and the operation brings in only
such values, then besides `step_refines` the state stays in that pool. -/
theorem step_refines_plain (st : ArgsSt) (op : ArgsOp) (h : Inv st) (hp : PlainSt st)
    (hop : PlainOp op) :
    abs (Args.step st op).1 = (specStep (abs st) op).1 ∧
    Inv (Args.step st op).1 ∧ PlainSt (Args.step st op).1 ∧
    OutRel SameObj (Args.step st op).2 (specStep (abs st) op).2 := by
  have := step_refines st op h
  exact ⟨this.1, this.2.1, plain_step st op h hp hop, this.2.2⟩
example : PlainSt (ArgsSt.empty 0) := ⟨by simp [ArgsSt.empty], by simp [ArgsSt.empty]⟩
example : PlainOp (.insert (-1) (.str sY)) ∧ PlainOp (.append (.grp gA)) :=
  ⟨trivial, ⟨.brace, [97], rfl⟩⟩

/-- **Histories over the pool of the property**: all outputs exactly equal. -/
theorem run_refines_plain (st : ArgsSt) (ops : List ArgsOp) (h : Inv st) (hp : PlainSt st)
    (hops : ∀ op ∈ ops, PlainOp op) :
    abs (Args.run st ops).1 = (specRun (abs st) ops).1 ∧
    OutsRel SameObj (Args.run st ops).2 (specRun (abs st) ops).2 := by
  induction ops generalizing st with
  | nil => exact ⟨rfl, trivial⟩
  | cons op ops ih =>
    have hs := step_refines_plain st op h hp (hops op (by simp))
    have hr := ih (Args.step st op).1 hs.2.1 hs.2.2.1 (fun o ho => hops o (by simp [ho]))
    simp only [Args.run, specRun]
    rw [← hs.1]
    exact ⟨hr.1, hs.2.2.2, hr.2⟩
example : (Args.run (.empty 0) [.extend [.str sA, .grp ⟨.ext 0, eA⟩, .str [32]], .pop 1]).2
    = [.none, .item (.grp ⟨.ext 0, eA⟩)] := rfl

/-- **Failed operations change nothing.** On a state satisfying the invariant, an operation
other than `extend` that ends in `TypeError`, `ValueError` or `IndexError` leaves both the
list and `.all` exactly as they were. (For `extend` see `extend_failure_keeps_prefix`.) -/
theorem failed_ops_keep_state (st : ArgsSt) (op : ArgsOp) (h : Inv st)
    (hop : isExtendOp op = false) (herr : isError (Args.step st op).2 = true) :
    (Args.step st op).1.lst = st.lst ∧ (Args.step st op).1.all = st.all := by
  cases op with
  | extend as => simp [isExtendOp] at hop
  | append a =>
    simp only [Args.step, Args.append] at herr ⊢
    rcases insert_char st st.lst.length a h with ⟨_, hi⟩ | ⟨it, n, all', _, hi, _, _⟩
    · rw [hi]; exact ⟨rfl, rfl⟩
    · rw [hi] at herr; simp [isError] at herr
  | insert i a =>
    simp only [Args.step] at herr ⊢
    rcases insert_char st i a h with ⟨_, hi⟩ | ⟨it, n, all', _, hi, _, _⟩
    · rw [hi]; exact ⟨rfl, rfl⟩
    · rw [hi] at herr; simp [isError] at herr
  | remove a =>
    simp only [Args.step] at herr ⊢
    rcases remove_char st a h with ⟨_, hr⟩ | ⟨it, n, _, _, hr⟩ | ⟨it, n, k, j, _, _, hr, _⟩
    · rw [hr]; exact ⟨rfl, rfl⟩
    · rw [hr]; exact ⟨rfl, rfl⟩
    · rw [hr] at herr; simp [isError] at herr
  | pop i =>
    simp only [Args.step] at herr ⊢
    rcases pop_char st i h with ⟨_, hp⟩ | ⟨k, e, j, _, _, hp, _⟩
    · rw [hp]; exact ⟨rfl, rfl⟩
    · rw [hp] at herr; simp [isError] at herr
  | reverse => simp [Args.step, Args.reverse, isError] at herr
  | clear => simp [Args.step, Args.clear, isError] at herr
  | getItem i =>
    simp only [Args.step] at herr ⊢
    rcases getItem_char st i with ⟨_, hg⟩ | ⟨k, e, _, _, hg⟩ <;> rw [hg] <;> exact ⟨rfl, rfl⟩
  | slice lo hi =>
    simp only [Args.step] at herr ⊢
    rcases slice_char st lo hi h with ⟨st', hs, _, _⟩
    rw [hs]; exact ⟨rfl, rfl⟩
  | str => exact ⟨rfl, rfl⟩
  | extendSlice lo hi =>
    simp only [Args.step] at herr
    rcases extendSlice_char st lo hi h with ⟨st', hs, _⟩
    rw [hs] at herr; simp [isError] at herr
  | extendSelf =>
    simp only [Args.step] at herr
    rcases extendSelf_char st h with ⟨st', hs, _⟩
    rw [hs] at herr; simp [isError] at herr
-- remove(' ') on TexArgs(['{a}', ' ', '{b}']): ValueError, `.all` keeps its blank
example : Args.step stAB (.remove (.str [32])) = (stAB, .valueError) := rfl
-- a mismatched string
example : Args.step stAB (.insert 1 (.str [91, 120, 125])) = (stAB, .typeError) := rfl

/-- **A rejected string changes nothing at all**: whenever the coercion of the operand
fails, `append`, `insert` and `remove` return `TypeError` with the state untouched – in any
state, invariant or not. -/
theorem failed_coercion_changes_nothing (st : ArgsSt) (i : Int) (a : ArgIn)
    (h : coerce st.next a = none) :
    Args.step st (.append a) = (st, .typeError) ∧ Args.step st (.insert i a) = (st, .typeError) ∧
    Args.step st (.remove a) = (st, .typeError) := by
  simp [Args.step, Args.append, Args.insert, Args.remove, h]
example : coerce 5 (.str [91, 120, 125]) = none := rfl

/-- **A failing `extend` is `extend` by the items before the offending one**: if
`extend(as)` raises, then `as = pre ++ bad :: post` where `bad` is the first operand whose
coercion fails, the exception is `TypeError`, and the state is exactly the one
`extend(pre)` produces without exception. -/
theorem extend_failure_keeps_prefix (st : ArgsSt) (as : List ArgIn) (h : Inv st)
    (herr : isError (Args.extend st as).2 = true) :
    ∃ pre bad post, as = pre ++ bad :: post ∧ coerce (Args.extend st as).1.next bad = none ∧
      (Args.extend st as).2 = .typeError ∧
      Args.extend st pre = ((Args.extend st as).1, .none) := by
  induction as generalizing st with
  | nil => simp [Args.extend, isError] at herr
  | cons a r ih =>
    unfold Args.extend Args.append at herr ⊢
    rcases insert_char st st.lst.length a h with ⟨hc, hi⟩ | ⟨it, n, all', _, hi, _, hinv⟩
    · rw [hi]
      exact ⟨[], a, r, rfl, hc, rfl, rfl⟩
    · rw [hi] at herr ⊢
      simp only at herr ⊢
      rcases ih _ hinv herr with ⟨pre, bad, post, h1, h2, h3, h4⟩
      refine ⟨a :: pre, bad, post, by simp [h1], h2, h3, ?_⟩
      simp only [hi]
      exact h4
example : Args.step stAB (.extend [.str sY, .str [120], .str sA])
    = (⟨[gA, gB, ⟨.made 2, eY⟩], [.grp gA, .grp gB, .grp ⟨.made 2, eY⟩, .ws [32]], 3⟩, .typeError) := rfl

/-- **Coercion is what the property says.** `'{' + s + '}'` becomes a new brace group whose
single content is the string `s`, `'[' + s + ']'` a new bracket group; a blank string is kept
as whitespace (and only ever reaches `.all`); every other string – mismatched delimiters
such as `'[x}'`, a lone `'{'`, text outside the delimiters, the empty string – is rejected
with `TypeError`. (`'[]'` and `'{}'` are the cases `s = ''`.) `n` is the allocation counter:
the new group is the `n`-th object made. -/
theorem coerce_correct (n : Nat) :
    (∀ s : Str, coerce n (.str (123 :: (s ++ [125])))
      = some (.grp ⟨.made n, .group .brace [.text s (-1)] (-1)⟩, n + 1)) ∧
    (∀ s : Str, coerce n (.str (91 :: (s ++ [93])))
      = some (.grp ⟨.made n, .group .bracket [.text s (-1)] (-1)⟩, n + 1)) ∧
    (∀ s : Str, isBlank s = true → coerce n (.str s) = some (.ws s, n)) ∧
    (∀ s : Str, isBlank s = false → (∀ t, s ≠ 123 :: (t ++ [125])) → (∀ t, s ≠ 91 :: (t ++ [93])) →
      coerce n (.str s) = none) := by
  have h1 : isSpaceCh 91 = false := by decide
  have h2 : isSpaceCh 123 = false := by decide
  refine ⟨?_, ?_, ?_, ?_⟩
  · intro s
    rw [coerce_eq_spec]
    simp [specVal, specStr, isBlank, h2, specGroup]
  · intro s
    rw [coerce_eq_spec]
    simp [specVal, specStr, isBlank, h1, specGroup]
  · intro s hs
    rw [coerce_eq_spec]
    simp [specVal, specStr, hs]
  · intro s hs hbrace hbracket
    rw [coerce_eq_spec]
    have : specGroup s = none := by
      unfold specGroup
      split
      · next t =>
        split
        · next hl =>
          rcases List.getLast?_eq_some_iff.mp hl with ⟨u, rfl⟩
          exact absurd rfl (hbracket u)
        · rfl
      · next t =>
        split
        · next hl =>
          rcases List.getLast?_eq_some_iff.mp hl with ⟨u, rfl⟩
          exact absurd rfl (hbrace u)
        · rfl
      · rfl
    simp [specVal, specStr, hs, this]
example : coerce 0 (.str [91, 120, 125]) = none ∧ coerce 0 (.str [123]) = none ∧ coerce 0 (.str []) = none ∧
    coerce 4 (.str [91, 93]) = some (.grp ⟨.made 4, .group .bracket [.text [] (-1)] (-1)⟩, 5) ∧
    coerce 4 (.str [91, 93, 93]) = some (.grp ⟨.made 4, .group .bracket [.text [93] (-1)] (-1)⟩, 5) ∧
    coerce 4 (.str [32, 10]) = some (.ws [32, 10], 4) := ⟨rfl, rfl, rfl, rfl, rfl, rfl⟩

/-- **Serialisation.** `str(args)` is the concatenation of the `str` of the list items in
list order (this is the `serL` of the arguments that `ser` of the owning command/environment
prints); `.all` plays no part, and asking for it changes nothing. -/
theorem str_is_concat (st : ArgsSt) :
    Args.step st .str = (st, .string (st.lst.map fun o => ser o.e).flatten) ∧
    (st.lst.map fun o => ser o.e).flatten = serL (st.lst.map Obj.e) := by
  simp [Args.step, Args.str, serL_eq_flatten]
example : (Args.step stAB .str).2 = .string [123, 97, 125, 123, 98, 125] := rfl

namespace Legacy
/-- **Negative result (defect F9, before the repair).** The old `insert` passed the raw index
to the book-keeping. On `TexArgs(['{a}', '{b}'])` – reachable, invariant holds –
`insert(-1, '{y}')` puts `{y}` into the list, then looks *it* up in `.all`
(`before = self[-2]` is the new item) and raises `ValueError`: the caller sees an exception
where `list.insert` succeeds, the list has changed nevertheless, and the resulting state
violates the invariant (`{y}` is not in `.all`). -/
theorem insert_breaks_list_semantics :
    let gY : Obj := ⟨.made 2, eY⟩
    let st : ArgsSt := ⟨[gA, gB], [.grp gA, .grp gB], 2⟩
    (Args.construct [.str sA, .str sB]).1 = st ∧ Inv st ∧
    Args.Legacy.insert st (-1) (.str sY) = (⟨[gA, gY, gB], [.grp gA, .grp gB], 3⟩, .valueError) ∧
    specStep (abs st) (.insert (-1) (.str sY)) = (([gA, gY, gB], 3), .none) ∧
    ¬ Inv ⟨[gA, gY, gB], [.grp gA, .grp gB], 3⟩ := by
  refine ⟨rfl, ⟨by simp [gA, gB, eA, eB, isArgObj], fun id => ?_⟩, rfl, rfl, ?_⟩
  · simp [List.countP_cons, ArgItem.isObj]
  · intro h
    exact absurd (h.objs (.made 2)) (by decide)

/-- **Negative result (before the first repair of `pop`).** The old `pop` ended in
`return self.all.pop(j)` with `j = self.all.index(item)`: with two textually equal groups that
are different objects (source positions 3 and 7), `pop(1)` handed back the one at position 3
although the list item at index 1 is the one at position 7, which `list.pop` returns. The
state is reachable (`TexArgs([g3, g7])`). -/
theorem pop_returns_textual_twin :
    let g3 : Obj := ⟨.ext 3, .group .brace [.text [97] (-1)] 3⟩
    let g7 : Obj := ⟨.ext 7, .group .brace [.text [97] (-1)] 7⟩
    let st := (Args.construct [.grp g3, .grp g7]).1
    st = ⟨[g3, g7], [.grp g3, .grp g7], 0⟩ ∧ Inv st ∧
    Args.Legacy.pop st 1 = (⟨[g3], [.grp g7], 0⟩, .item (.grp g3)) ∧
    specStep (abs st) (.pop 1) = (([g3], 0), .item g7) := by
  refine ⟨rfl, ?_, rfl, rfl⟩
  show Inv ⟨[⟨.ext 3, .group .brace [.text [97] (-1)] 3⟩, ⟨.ext 7, .group .brace [.text [97] (-1)] 7⟩],
    [.grp ⟨.ext 3, .group .brace [.text [97] (-1)] 3⟩, .grp ⟨.ext 7, .group .brace [.text [97] (-1)] 7⟩], 0⟩
  exact ⟨by simp [isArgObj], fun id => by simp [List.countP_cons, ArgItem.isObj]⟩

/-- **The old `pop` against the current one**: the same list afterwards and the same
`IndexError`s; where the current `pop` returns the list item, the old one returned an entry
of `.all` that prints like it (or raised `ValueError` if, after an edit, none did). -/
theorem pop_differs_only_in_returned_object (st : ArgsSt) (i : Int) (h : Inv st) :
    (Args.Legacy.pop st i).1.lst = (Args.pop st i).1.lst ∧
    ((Args.pop st i).2 = .indexError ∧ Args.Legacy.pop st i = (st, .indexError) ∨
     ∃ o, (Args.pop st i).2 = .item (.grp o) ∧ o ∈ st.lst ∧
       ((Args.Legacy.pop st i).2 = .valueError ∨
        ∃ r, (Args.Legacy.pop st i).2 = .item r ∧ r ∈ st.all ∧ r.txt = ser o.e)) :=
  legacy_pop_char st i h
example : Args.Legacy.pop stAB 5 = (stAB, .indexError) ∧
    Args.Legacy.pop stAB 0 = Args.pop stAB 0 := ⟨rfl, rfl⟩

/-- **On the pool of the property the old `pop` returned an equal value**: there a textual
twin has the same contents and position as the list item (it may still be another object,
which only `is` can tell). This is why a search over groups made from strings that compares
values does not see the defect. -/
theorem pop_agrees_on_plain_pool (st : ArgsSt) (i : Int) (h : Inv st) (hp : PlainSt st)
    (r : ArgItem) (hr : (Args.Legacy.pop st i).2 = .item r) :
    ∃ o o', (Args.pop st i).2 = .item (.grp o) ∧ r = .grp o' ∧ o'.e = o.e := by
  rcases legacy_pop_char st i h with ⟨_, ⟨_, h3⟩ | ⟨o, h2, ho, h3 | ⟨r', h3, hr', ht⟩⟩⟩
  · rw [h3] at hr; cases hr
  · rw [h3] at hr; cases hr
  · rw [h3] at hr; cases hr
    rcases twin_value_of_plain hp hr' ho ht with ⟨o', h4, h5⟩
    exact ⟨o, o', h2, h4, h5⟩
example : PlainSt stAB ∧ (Args.Legacy.pop stAB 1).2 = .item (.grp gB) :=
  ⟨⟨by intro e he; simp [stAB] at he; rcases he with rfl | rfl <;> exact ⟨_, _, rfl⟩,
    by intro it hi; simp [stAB] at hi
       rcases hi with rfl | rfl | rfl
       · exact ⟨_, _, rfl⟩
       · exact ⟨_, _, rfl⟩
       · show isBlank [32] = true; decide⟩, rfl⟩

/-- The repaired `insert` on the witness of `insert_breaks_list_semantics`: no exception,
list as `list.insert`, `.all` in step. -/
theorem insert_repaired_on_witness :
    Args.insert ⟨[gA, gB], [.grp gA, .grp gB], 2⟩ (-1) (.str sY)
      = (⟨[gA, ⟨.made 2, eY⟩, gB], [.grp gA, .grp ⟨.made 2, eY⟩, .grp gB], 3⟩, .none) := rfl
end Legacy

namespace Legacy2
/-- **Negative result (book-keeping by text).** Appending `'{a}'`, `'{a}'`, `'[b]'`: the old
code looked the left neighbour up with `self.all.index`, found the *first* `{a}` and put
`[b]` behind it – `.all` became `{a} [b] {a}` while the list is `{a} {a} [b]`. The current
code finds the neighbour itself. -/
theorem insert_misplaced_twin :
    let st := (Args.run (.empty 0) [.append (.str sA), .append (.str sA)]).1
    let b : Obj := ⟨.made 2, .group .bracket [.text [98] (-1)] (-1)⟩
    st = ⟨[⟨.made 0, eA⟩, ⟨.made 1, eA⟩], [.grp ⟨.made 0, eA⟩, .grp ⟨.made 1, eA⟩], 2⟩ ∧
    (Args.Legacy2.insert st 2 (.str [91, 98, 93])).1.all
      = [.grp ⟨.made 0, eA⟩, .grp b, .grp ⟨.made 1, eA⟩] ∧
    (Args.insert st 2 (.str [91, 98, 93])).1.all
      = [.grp ⟨.made 0, eA⟩, .grp ⟨.made 1, eA⟩, .grp b] :=
  ⟨rfl, rfl, rfl⟩

/-- **Negative result (`remove` touched `.all` first).** `remove(' ')` on
`TexArgs(['{a}', ' ', '{b}'])` raised `ValueError` as a list does, but had already deleted
the blank from `.all`; the current code raises with `.all` untouched. -/
theorem remove_mutated_all_before_raising :
    Args.Legacy2.remove stAB (.str [32]) = (⟨[gA, gB], [.grp gA, .grp gB], 2⟩, .valueError) ∧
    Args.remove stAB (.str [32]) = (stAB, .valueError) :=
  ⟨rfl, rfl⟩
end Legacy2

end C18
end TexSoup
