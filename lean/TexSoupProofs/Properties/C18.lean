import TexSoupModel.Args
import TexSoupProofs.ArgsSpec
import TexSoupProofs.ArgsLemmas
/-!
# C18 – argument lists behave like Python lists of groups

Model: `TexSoupModel/Args.lean` (`Args.step`, the class as it is, `.all` included).
Specification: `TexSoupProofs/ArgsSpec.lean` (`specStep` on a bare `List Expr`).
Abstraction `abs st = st.lst`; invariant `Inv` (only group/command objects in the list; every
list item has its own textual twin in `.all`, counted with multiplicity).

Things the proofs forced into the open (all replayed on the implementation):
* before its repair `pop` returned the first *textual twin* kept in `.all`, not the list item
  itself (`Legacy.pop_returns_textual_twin`); the repaired `pop` returns the list item, so
  every output of every operation is now exactly the list's (`step_refines`);
* `remove(x)` of something that is in `.all` but not in the list (a blank string, mainly)
  raises `ValueError` like a list does, but has already deleted it from `.all`
  (`failed_ops_keep_state`);
* a failing `extend` keeps the items before the offending one, as a Python loop does
  (`extend_failure_keeps_prefix`).
-/
namespace TexSoup
namespace C18
open ArgsSpec ArgsLemmas ArgsLemmas.Examples

/-- **One step refines the list.** For every state satisfying the invariant and *every*
operation with *every* integer index/bound: the class returns exactly what the list returns
(a returned item is the list's own item – the same object, not merely an equal text), the
new list is the list's new value (`abs` commutes), and the invariant is preserved. A
returned slice is the sliced list and itself a well-formed `TexArgs`. -/
theorem step_refines (st : ArgsSt) (op : ArgsOp) (h : Inv st) :
    abs (Args.step st op).1 = (specStep (abs st) op).1 ∧
    Inv (Args.step st op).1 ∧
    OutRel SameObj (Args.step st op).2 (specStep (abs st) op).2 := by
  have := step_core st op h
  exact ⟨this.1, this.2.1, outRel_mono (fun _ _ hr => hr.1) this.2.2⟩
example : Inv ArgsSt.empty := inv_empty
example : (Args.step stAB (.insert (-7) (.str sY))).1.lst = [gY, gA, gB] ∧
    (specStep stAB.lst (.insert (-7) (.str sY))).1 = [gY, gA, gB] := ⟨rfl, rfl⟩

/-- **Returned items are the list's own items, for every operation** (`pop` included since
its repair): the output component of `step_refines` on its own. -/
theorem step_output_exact (st : ArgsSt) (op : ArgsOp) (h : Inv st) :
    OutRel SameObj (Args.step st op).2 (specStep (abs st) op).2 :=
  (step_refines st op h).2.2
example : (Args.step stAB (.getItem (-1))).2 = .item (.grp gB) ∧
    (Args.step stAB (.pop 0)).2 = .item (.grp gA) := ⟨rfl, rfl⟩

/-- **The repaired `pop` on the witness of the former deviation**: with two textually equal
groups that are different objects (source positions 3 and 7), `pop(1)` returns the item at
index 1 (position 7), as `list.pop` does. (`.all` gives up its *first* twin, the object at
position 3 – the multiset of texts, which is all the invariant needs, is the same.) -/
theorem pop_returns_list_item_on_witness :
    let g3 : Expr := .group .brace [.text [97] (-1)] 3
    let g7 : Expr := .group .brace [.text [97] (-1)] 7
    let st := (Args.construct [.grp g3, .grp g7]).1
    st = ⟨[g3, g7], [.grp g3, .grp g7]⟩ ∧
    Args.step st (.pop 1) = (⟨[g3], [.grp g7]⟩, .item (.grp g7)) ∧
    specStep st.lst (.pop 1) = ([g3], .item g7) :=
  ⟨rfl, rfl, rfl⟩

/-- **Histories.** From any state satisfying the invariant (in particular the empty
`TexArgs()`), every finite sequence of operations yields pointwise identical outputs, the
same final list, and a final state satisfying the invariant. -/
theorem run_refines (st : ArgsSt) (ops : List ArgsOp) (h : Inv st) :
    abs (Args.run st ops).1 = (specRun (abs st) ops).1 ∧
    Inv (Args.run st ops).1 ∧
    OutsRel SameObj (Args.run st ops).2 (specRun (abs st) ops).2 := by
  induction ops generalizing st with
  | nil => exact ⟨rfl, h, trivial⟩
  | cons op ops ih =>
    have hs := step_refines st op h
    have hr := ih (Args.step st op).1 hs.2.1
    simp only [abs] at hs hr ⊢
    simp only [Args.run, specRun]
    rw [← hs.1]
    exact ⟨hr.1, hr.2.1, hs.2.2, hr.2.2⟩
example : (Args.run .empty [.append (.str sA), .insert 5 (.str sB), .remove (.str sA), .pop (-1)]).2
    = [.none, .none, .none, .item (.grp gB)] := rfl

/-- **The pool of the property is closed.** If everything stored is a group made from a
string (`TexGroup.parse`, position `-1`) or a blank string, and the operation brings in only
such values, then besides `step_refines` the state stays in that pool. -/
theorem step_refines_plain (st : ArgsSt) (op : ArgsOp) (h : Inv st) (hp : PlainSt st)
    (hop : PlainOp op) :
    abs (Args.step st op).1 = (specStep (abs st) op).1 ∧
    Inv (Args.step st op).1 ∧ PlainSt (Args.step st op).1 ∧
    OutRel SameObj (Args.step st op).2 (specStep (abs st) op).2 := by
  have := step_refines st op h
  exact ⟨this.1, this.2.1, plain_step st op h hp hop, this.2.2⟩
example : PlainSt ArgsSt.empty := ⟨by simp [ArgsSt.empty], by simp [ArgsSt.empty]⟩
example : PlainOp (.insert (-1) (.str sY)) ∧ PlainOp (.append (.grp gA)) :=
  ⟨trivial, ⟨.brace, [97], rfl⟩⟩

/-- **Histories over the pool of the property**: all outputs exactly equal. -/
theorem run_refines_plain (st : ArgsSt) (ops : List ArgsOp) (h : Inv st) (hp : PlainSt st)
    (hops : ∀ op ∈ ops, PlainOp op) :
    abs (Args.run st ops).1 = (specRun (abs st) ops).1 ∧
    OutsRel SameObj (Args.run st ops).2 (specRun (abs st) ops).2 := by
  induction ops generalizing st with
  | nil => exact ⟨rfl, trivial⟩
  | cons op ops ih =>
    have hs := step_refines_plain st op h hp (hops op (by simp))
    have hr := ih (Args.step st op).1 hs.2.1 hs.2.2.1 (fun o ho => hops o (by simp [ho]))
    simp only [abs] at hs hr ⊢
    simp only [Args.run, specRun]
    rw [← hs.1]
    exact ⟨hr.1, hs.2.2.2, hr.2⟩
example : (Args.run .empty [.extend [.str sA, .grp gA, .str [32]], .pop 1]).2
    = [.none, .item (.grp gA)] := rfl

/-- **Failed operations keep the list.** On a state satisfying the invariant, an operation
other than `extend` that ends in `TypeError`, `ValueError` or `IndexError` leaves the list
unchanged. `.all` is unchanged too, with one exception: `remove(x)` for an `x` that has a
textual twin in `.all` but none in the list (a blank string, typically) has deleted that
twin from `.all` before `list.remove` raises. -/
theorem failed_ops_keep_state (st : ArgsSt) (op : ArgsOp) (h : Inv st)
    (hop : isExtendOp op = false) (herr : isError (Args.step st op).2 = true) :
    (Args.step st op).1.lst = st.lst ∧
    ((Args.step st op).1.all = st.all ∨
      ∃ a it j, op = .remove a ∧ coerce a = some it ∧ (Args.step st op).2 = .valueError ∧
        idxOfTxt ArgItem.txt it.txt st.all = some j ∧ it.txt ∉ st.lst.map ser ∧
        (Args.step st op).1.all = st.all.eraseIdx j) := by
  cases op with
  | extend as => simp [isExtendOp] at hop
  | append a =>
    simp only [Args.step, Args.append] at herr ⊢
    rcases insert_char st st.lst.length a h with ⟨_, hi⟩ | ⟨it, all', _, hi, _, _⟩
    · rw [hi]; exact ⟨rfl, Or.inl rfl⟩
    · rw [hi] at herr; simp [isError] at herr
  | insert i a =>
    simp only [Args.step] at herr ⊢
    rcases insert_char st i a h with ⟨_, hi⟩ | ⟨it, all', _, hi, _, _⟩
    · rw [hi]; exact ⟨rfl, Or.inl rfl⟩
    · rw [hi] at herr; simp [isError] at herr
  | remove a =>
    simp only [Args.step] at herr ⊢
    rcases remove_char st a h with ⟨_, hr⟩ | ⟨it, hc, hs, ⟨_, hr⟩ | ⟨j, hj, hr, _⟩⟩ |
      ⟨it, j, l', _, _, _, hr, _⟩
    · rw [hr]; exact ⟨rfl, Or.inl rfl⟩
    · rw [hr]; exact ⟨rfl, Or.inl rfl⟩
    · rw [hr]
      refine ⟨rfl, Or.inr ⟨a, it, j, rfl, hc, rfl, hj, ?_, rfl⟩⟩
      rw [specRemove_eq] at hs
      cases hk : idxOfTxt ser it.txt st.lst with
      | none => exact (idxOfTxt_none _ _ _).mp hk
      | some k => simp [hk] at hs
    · rw [hr] at herr; simp [isError] at herr
  | pop i =>
    simp only [Args.step] at herr ⊢
    rcases pop_char st i h with ⟨_, hp⟩ | ⟨k, e, j, _, _, _, hp, _⟩
    · rw [hp]; exact ⟨rfl, Or.inl rfl⟩
    · rw [hp] at herr; simp [isError] at herr
  | reverse => simp [Args.step, Args.reverse, isError] at herr
  | clear => simp [Args.step, Args.clear, isError] at herr
  | getItem i =>
    simp only [Args.step] at herr ⊢
    rcases getItem_char st i with ⟨_, hg⟩ | ⟨k, e, _, _, hg⟩ <;> rw [hg] <;> exact ⟨rfl, Or.inl rfl⟩
  | slice lo hi =>
    simp only [Args.step] at herr ⊢
    rcases slice_char st lo hi h with ⟨st', hs, _, _⟩
    rw [hs]; exact ⟨rfl, Or.inl rfl⟩
  | str => exact ⟨rfl, Or.inl rfl⟩
-- the exceptional case exists: remove(' ') on TexArgs(['{a}', ' ', '{b}'])
example : Args.step stAB (.remove (.str [32])) = (⟨[gA, gB], [.grp gA, .grp gB]⟩, .valueError) := rfl
-- and the ordinary one: a mismatched string
example : Args.step stAB (.insert 1 (.str [91, 120, 125])) = (stAB, .typeError) := rfl

/-- **A rejected string changes nothing at all**: whenever the coercion of the operand
fails, `append`, `insert` and `remove` return `TypeError` with list and `.all` untouched –
in any state, invariant or not. -/
theorem failed_coercion_changes_nothing (st : ArgsSt) (i : Int) (a : ArgIn)
    (h : coerce a = none) :
    Args.step st (.append a) = (st, .typeError) ∧ Args.step st (.insert i a) = (st, .typeError) ∧
    Args.step st (.remove a) = (st, .typeError) := by
  simp [Args.step, Args.append, Args.insert, Args.remove, h]
example : coerce (.str [91, 120, 125]) = none := rfl

/-- **A failing `extend` is `extend` by the items before the offending one**: if
`extend(as)` raises, then `as = pre ++ bad :: post` where `bad` is the first operand whose
coercion fails, the exception is `TypeError`, and the state is exactly the one
`extend(pre)` produces without exception. -/
theorem extend_failure_keeps_prefix (st : ArgsSt) (as : List ArgIn) (h : Inv st)
    (herr : isError (Args.extend st as).2 = true) :
    ∃ pre bad post, as = pre ++ bad :: post ∧ coerce bad = none ∧
      (Args.extend st as).2 = .typeError ∧
      Args.extend st pre = ((Args.extend st as).1, .none) := by
  induction as generalizing st with
  | nil => simp [Args.extend, isError] at herr
  | cons a r ih =>
    unfold Args.extend Args.append at herr ⊢
    rcases insert_char st st.lst.length a h with ⟨hc, hi⟩ | ⟨it, all', _, hi, _, hinv⟩
    · rw [hi]
      exact ⟨[], a, r, rfl, hc, rfl, rfl⟩
    · rw [hi] at herr ⊢
      simp only at herr ⊢
      rcases ih _ hinv herr with ⟨pre, bad, post, h1, h2, h3, h4⟩
      refine ⟨a :: pre, bad, post, by simp [h1], h2, h3, ?_⟩
      simp only [hi]
      exact h4
example : Args.step stAB (.extend [.str sY, .str [120], .str sA])
    = (⟨[gA, gB, gY], [.grp gA, .grp gB, .grp gY, .ws [32]]⟩, .typeError) := rfl

/-- **Coercion is what the property says.** `'{' + s + '}'` becomes the brace group whose
single content is the string `s`, `'[' + s + ']'` the bracket group; a blank string is kept
as whitespace (and only ever reaches `.all`); every other string – mismatched delimiters
such as `'[x}'`, a lone `'{'`, text outside the delimiters, the empty string – is rejected
with `TypeError`. (`'[]'` and `'{}'` are the cases `s = ''`.) -/
theorem coerce_correct :
    (∀ s : Str, coerce (.str (123 :: (s ++ [125]))) = some (.grp (.group .brace [.text s (-1)] (-1)))) ∧
    (∀ s : Str, coerce (.str (91 :: (s ++ [93]))) = some (.grp (.group .bracket [.text s (-1)] (-1)))) ∧
    (∀ s : Str, isBlank s = true → coerce (.str s) = some (.ws s)) ∧
    (∀ s : Str, isBlank s = false → (∀ t, s ≠ 123 :: (t ++ [125])) → (∀ t, s ≠ 91 :: (t ++ [93])) →
      coerce (.str s) = none) := by
  have h1 : isSpaceCh 91 = false := by decide
  have h2 : isSpaceCh 123 = false := by decide
  refine ⟨?_, ?_, ?_, ?_⟩
  · intro s
    rw [coerce_eq_spec]
    simp [specVal, specStr, isBlank, h2, specGroup]
  · intro s
    rw [coerce_eq_spec]
    simp [specVal, specStr, isBlank, h1, specGroup]
  · intro s hs
    rw [coerce_eq_spec]
    simp [specVal, specStr, hs]
  · intro s hs hbrace hbracket
    rw [coerce_eq_spec]
    have : specGroup s = none := by
      unfold specGroup
      split
      · next t =>
        split
        · next hl =>
          rcases List.getLast?_eq_some_iff.mp hl with ⟨u, rfl⟩
          exact absurd rfl (hbracket u)
        · rfl
      · next t =>
        split
        · next hl =>
          rcases List.getLast?_eq_some_iff.mp hl with ⟨u, rfl⟩
          exact absurd rfl (hbrace u)
        · rfl
      · rfl
    simp [specVal, specStr, hs, this]
example : coerce (.str [91, 120, 125]) = none ∧ coerce (.str [123]) = none ∧ coerce (.str []) = none ∧
    coerce (.str [91, 93]) = some (.grp (.group .bracket [.text [] (-1)] (-1))) ∧
    coerce (.str [91, 93, 93]) = some (.grp (.group .bracket [.text [93] (-1)] (-1))) ∧
    coerce (.str [32, 10]) = some (.ws [32, 10]) := ⟨rfl, rfl, rfl, rfl, rfl, rfl⟩

/-- **Serialisation.** `str(args)` is the concatenation of the `str` of the list items in
list order (this is the `serL args` that `ser` of the owning command/environment prints);
`.all` plays no part, and asking for it changes nothing. -/
theorem str_is_concat (st : ArgsSt) :
    Args.step st .str = (st, .string (st.lst.map ser).flatten) ∧
    (st.lst.map ser).flatten = serL st.lst := by
  simp [Args.step, Args.str, serL_eq_flatten]
example : (Args.step stAB .str).2 = .string [123, 97, 125, 123, 98, 125] := rfl

namespace Legacy
/-- **Negative result (defect F9, before the repair).** The old `insert` passed the raw index
to the book-keeping. On `TexArgs(['{a}', '{b}'])` – reachable, invariant holds –
`insert(-1, '{y}')` puts `{y}` into the list, then looks *it* up in `.all`
(`before = self[-2]` is the new item) and raises `ValueError`: the caller sees an exception
where `list.insert` succeeds, the list has changed nevertheless, and the resulting state
violates the invariant (`{y}` has no twin in `.all`). -/
theorem insert_breaks_list_semantics :
    let st : ArgsSt := ⟨[gA, gB], [.grp gA, .grp gB]⟩
    (Args.construct [.str sA, .str sB]).1 = st ∧ Inv st ∧
    Args.Legacy.insert st (-1) (.str sY) = (⟨[gA, gY, gB], [.grp gA, .grp gB]⟩, .valueError) ∧
    specStep st.lst (.insert (-1) (.str sY)) = ([gA, gY, gB], .none) ∧
    ¬ Inv ⟨[gA, gY, gB], [.grp gA, .grp gB]⟩ := by
  refine ⟨rfl, ⟨by simp [gA, gB, isArgObj], fun t => Nat.le_refl _⟩, rfl, rfl, ?_⟩
  intro h
  exact absurd (h.twins sY) (by decide)

/-- **Negative result (before the repair of `pop`).** The old `pop` ended in
`return self.all.pop(j)`: with two textually equal groups that are different objects (source
positions 3 and 7), `pop(1)` handed back the one at position 3 although the list item at
index 1 is the one at position 7, which `list.pop` returns. The state is reachable
(`TexArgs([g3, g7])`). Harmless for text, visible through `.position`/identity. -/
theorem pop_returns_textual_twin :
    let g3 : Expr := .group .brace [.text [97] (-1)] 3
    let g7 : Expr := .group .brace [.text [97] (-1)] 7
    let st := (Args.construct [.grp g3, .grp g7]).1
    st = ⟨[g3, g7], [.grp g3, .grp g7]⟩ ∧ Inv st ∧
    Args.Legacy.pop st 1 = (⟨[g3], [.grp g7]⟩, .item (.grp g3)) ∧
    specStep st.lst (.pop 1) = ([g3], .item g7) := by
  refine ⟨rfl, ?_, rfl, rfl⟩
  show Inv ⟨[.group .brace [.text [97] (-1)] 3, .group .brace [.text [97] (-1)] 7],
    [.grp (.group .brace [.text [97] (-1)] 3), .grp (.group .brace [.text [97] (-1)] 7)]⟩
  exact ⟨by simp [isArgObj], fun t => Nat.le_refl _⟩

/-- **The old `pop` was wrong in the returned object only**: same new state as the repaired
`pop`, same exception behaviour, and the object it returned is an entry of `.all` printing
like the list item. -/
theorem pop_differs_only_in_returned_object (st : ArgsSt) (i : Int) (h : Inv st) :
    (Args.Legacy.pop st i).1 = (Args.pop st i).1 ∧
    ((Args.pop st i).2 = .indexError ∧ (Args.Legacy.pop st i).2 = .indexError ∨
     ∃ e r, (Args.pop st i).2 = .item (.grp e) ∧ (Args.Legacy.pop st i).2 = .item r ∧
       r ∈ st.all ∧ e ∈ st.lst ∧ r.txt = ser e) :=
  legacy_pop_char st i h
example : Args.Legacy.pop stAB 5 = (stAB, .indexError) ∧
    Args.Legacy.pop stAB 0 = Args.pop stAB 0 := ⟨rfl, rfl⟩

/-- **On the pool of the property the old `pop` could not be told from a list's**: there a
textual twin is the same value, so old and repaired `pop` agree completely. (This is why a
breadth-first search over groups made from strings does not see the defect.) -/
theorem pop_agrees_on_plain_pool (st : ArgsSt) (i : Int) (h : Inv st) (hp : PlainSt st) :
    Args.Legacy.pop st i = Args.pop st i := by
  rcases legacy_pop_char st i h with ⟨h1, ⟨h2, h3⟩ | ⟨e, r, h2, h3, hr, he, ht⟩⟩
  · exact Prod.ext h1 (h3.trans h2.symm)
  · exact Prod.ext h1 (by rw [h2, h3, twin_exact_of_plain hp hr he ht])
example : PlainSt stAB :=
  ⟨by intro e he; simp [stAB] at he; rcases he with rfl | rfl <;> exact ⟨_, _, rfl⟩,
   by intro it hi; simp [stAB] at hi
      rcases hi with rfl | rfl | rfl
      · exact ⟨_, _, rfl⟩
      · exact ⟨_, _, rfl⟩
      · show isBlank [32] = true; decide⟩

/-- The repaired `insert` on the same input: no exception, list as `list.insert`, `.all` in step. -/
theorem insert_repaired_on_witness :
    Args.insert ⟨[gA, gB], [.grp gA, .grp gB]⟩ (-1) (.str sY)
      = (⟨[gA, gY, gB], [.grp gA, .grp gY, .grp gB]⟩, .none) := rfl
end Legacy

end C18
end TexSoup
