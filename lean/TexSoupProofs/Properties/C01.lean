import TexSoupProofs.Properties.C16
/-!
# C01 – Parse → serialise round trip is lossless on well-formed documents

For every well-formed document in which each argument group immediately follows its command
or the previous argument, parsing succeeds and converting the tree back to text yields the
source exactly; the text of every node is the slice of the source it was parsed from.

Proved here, for ALL strings (not only grammar documents): if the string parses in strict
mode, has no NUL/DEL, no made-up arguments, plain environment names, and no whitespace token
directly before an opening brace/bracket ("each argument group immediately follows"), then
the serialisation IS the source, character for character. That well-formed documents *do*
parse is the completeness of the reader on the grammar (`Properties/C02.lean`, token level);
the node-slice clause is `Properties/C13Positions.lean` together with conservation of every
sub-reader (`C08.reader_invariant`).
-/
namespace TexSoup.C01

/-- lossless round trip -/
theorem roundtrip (skip : List Str) (s : Str) (es : List Expr)
    (hs : ∀ c ∈ s, isIgnored (catOf c) = false) (h : parse false skip s = .ok es)
    (hskip : ∀ n, memStr n skip = true → PlainEnvName n)
    (henv : ∀ ts, tokenize s = some ts → C08.EnvNamesPlain ts) (hnb : noBareL es = true)
    (hadj : ∀ ts, tokenize s = some ts → noSpacerBeforeOpener ts = true) : serL es = s :=
  C16.output_is_input skip s es hs h hskip henv hnb hadj

/-- the same in tolerant mode whenever strict parsing succeeds (C07a) -/
theorem roundtrip_tolerant (skip : List Str) (s : Str) (es : List Expr)
    (hs : ∀ c ∈ s, isIgnored (catOf c) = false) (h : parse false skip s = .ok es)
    (hskip : ∀ n, memStr n skip = true → PlainEnvName n)
    (henv : ∀ ts, tokenize s = some ts → C08.EnvNamesPlain ts) (hnb : noBareL es = true)
    (hadj : ∀ ts, tokenize s = some ts → noSpacerBeforeOpener ts = true) :
    parse true skip s = .ok es ∧ serL es = s :=
  ⟨parse_strict_tolerant skip s es h, roundtrip skip s es hs h hskip henv hnb hadj⟩

/-- every reader function reproduces the tokens it consumed (node-level form of the round
trip: the text of a node is the text of the tokens it was read from, minus dropped spacers) -/
theorem node_text_is_its_tokens (skip0 : List Str) (f : Nat) (skip : List Str) (tol : Bool) (mode : Mode)
    (ts : List Tok) (e : Expr) (rest : List Tok) (h : readExpr f skip tol mode ts = .ok (e, rest))
    (hy : Hyp skip0 ts) (hsk : ∀ x, memStr x skip = true → memStr x skip0 = true)
    (hnb : noBare e = true) : Cons tol ts (ser e) rest :=
  (consAt skip0 f).1 skip tol mode ts e rest h hy hsk hnb

/-! Non-vacuity: `\a{b}$c$` round-trips. -/
example : parse false [] [92, 97, 123, 98, 125, 36, 99, 36] =
    .ok [.cmd [97] [.group .brace [.text [98] 3] 2] [] 0, .math .dollar [.text [99] 6] 5] := by rfl
example : serL [.cmd [97] [.group .brace [.text [98] 3] 2] [] 0, .math .dollar [.text [99] 6] 5] =
    [92, 97, 123, 98, 125, 36, 99, 36] := by rfl

end TexSoup.C01
