import TexSoupProofs.TokLemmas
/-!
# Property C19 — categorisation and tokenization partition the input

"Every character of any string, for every Unicode code point, is assigned exactly one
category and its own index.  The resulting tokens partition the input: their texts
concatenated in order reproduce the input exactly (apart from NUL/DEL characters, which may
only be dropped), no token is empty, and every token records the offset at which its text
starts."

All statements quantify over arbitrary lists of natural numbers (so over every code point,
including lone surrogates) and have no length bound.  Helper lemmas live in
`TexSoupProofs/TokLemmas/*.lean`; this file contains only the property theorems.
-/
namespace TexSoup

/-! ## 1. `categorize` -/

/-- `categorize` pairs every character with its own index and its category, in order. -/
theorem categorize_spec (s : Str) :
    categorize s = List.zipWith (fun c i => (c, i, catOf c)) s (List.range s.length) := by
  rw [categorize, categorizeFrom_eq, List.range_eq_range']

/-- `categorize` preserves the length: no character is dropped or duplicated. -/
theorem categorize_length (s : Str) : (categorize s).length = s.length :=
  categorizeFrom_length 0 s

/-- The `i`-th entry of `categorize s` is `(s[i], i, catOf s[i])`. -/
theorem categorize_getElem (s : Str) (i : Nat) (h : i < s.length) :
    (categorize s)[i]'(by rw [categorize_length]; exact h) = (s[i], i, catOf s[i]) := by
  have := categorizeFrom_getElem 0 s i h
  simpa [categorize] using this

/-- The generated category table has no duplicate keys, so the "first match" taken by the
loop over `CATEGORY_CODES` is the only match. -/
theorem catTable_keys_nodup : (Tables.catTable.map Prod.fst).Nodup := catTable_keys_nodup'

/-- The generator found no character listed under two categories. -/
theorem catMultiCount_zero : Tables.catMultiCount = 0 := by decide

/-- A character listed in the table gets exactly the listed category; every other code point
is `Other`.  Hence every code point has exactly one category. -/
theorem catOf_unique (c : Ch) :
    (∀ v, (c, v) ∈ Tables.catTable → catOf c = v) ∧
    (c ∉ Tables.catTable.map Prod.fst → catOf c = .Other) :=
  ⟨fun _ h => catOf_of_mem h, catOf_of_not_mem⟩

/-! ## 2. Totality -/

/-- `next_token` always makes progress, so the fuel `tokFuel s` suffices: the tokenizer
terminates normally on every input. -/
theorem tokenize_total (s : Str) : ∃ ts, tokenize s = some ts :=
  tokLoop_total (tokFuel s) none ⟨none, 0, s⟩ (by simp [tokFuel])

/-! ## 3. Partition -/

/-- The concatenated token texts are the input with some ignored (NUL/DEL) characters
deleted, and nothing else changed. -/
theorem tokenize_partition {s : Str} {ts : List Tok} (h : tokenize s = some ts) :
    Erased s (flat ts) :=
  (tokenize_chain h).erased

/-- Instance of the hypothesis `tokenize s = some ts` shared by all theorems of sections 3–5:
`NUL \ a { % DEL }`; the leading NUL is dropped, the DEL inside the comment is kept. -/
example : tokenize [0, 92, 97, 123, 37, 127, 125] = some
    [⟨[92], 1, .Escape⟩, ⟨[97], 2, .CommandName⟩, ⟨[123], 3, .GroupBegin⟩,
     ⟨[37, 127, 125], 4, .Comment⟩] := by decide +kernel

/-- The concatenated token texts form a sublist (subsequence) of the input. -/
theorem tokenize_sublist {s : Str} {ts : List Tok} (h : tokenize s = some ts) :
    (flat ts).Sublist s :=
  (tokenize_partition h).sublist

/-- Every non-ignored character of the input survives into some token. -/
theorem tokenize_keeps {s : Str} {ts : List Tok} (h : tokenize s = some ts) {c : Ch}
    (hc : c ∈ s) (hi : isIgnored (catOf c) = false) : c ∈ flat ts :=
  (tokenize_partition h).mem_of_not_ignored hc hi

/-- Without NUL/DEL characters the tokens reproduce the input exactly. -/
theorem tokenize_lossless {s : Str} {ts : List Tok}
    (hs : ∀ c ∈ s, isIgnored (catOf c) = false) (h : tokenize s = some ts) : flat ts = s :=
  (tokenize_partition h).eq_of_no_ignored hs

/-- Instance of both hypotheses of `tokenize_lossless`: `\ a { % }`. -/
example : (∀ c ∈ ([92, 97, 123, 37, 125] : Str), isIgnored (catOf c) = false) ∧
    tokenize [92, 97, 123, 37, 125] = some
      [⟨[92], 0, .Escape⟩, ⟨[97], 1, .CommandName⟩, ⟨[123], 2, .GroupBegin⟩,
       ⟨[37, 125], 3, .Comment⟩] := by decide +kernel

/-! ## 4. No empty token -/

/-- No token is empty. -/
theorem token_nonempty {s : Str} {ts : List Tok} (h : tokenize s = some ts) :
    ∀ t ∈ ts, t.text ≠ [] :=
  (tokenize_chain h).nonempty

/-! ## 5. Offsets -/

/-- Every token's text is the slice of the source that starts at its recorded offset. -/
theorem token_offsets {s : Str} {ts : List Tok} (h : tokenize s = some ts) :
    ∀ t ∈ ts, t.text = (s.drop t.pos).take t.text.length := by
  have := (tokenize_chain h).slice [] rfl
  simpa using this

/-- Tokens do not overlap and appear in source order. -/
theorem token_offsets_increasing {s : Str} {ts : List Tok} (h : tokenize s = some ts) :
    ts.Pairwise (fun a b => a.pos + a.text.length ≤ b.pos) :=
  (tokenize_chain h).ordered.2

/-- Every token lies inside the source. -/
theorem token_offsets_bounded {s : Str} {ts : List Tok} (h : tokenize s = some ts) :
    ∀ t ∈ ts, t.pos + t.text.length ≤ s.length := by
  have := (tokenize_chain h).bounded
  simpa using this

end TexSoup
