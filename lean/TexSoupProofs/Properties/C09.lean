import TexSoupProofs.Reader.Leaves
import TexSoupProofs.Reader.ConsTop
/-!
# C09 – Arguments attach by the one-line-break rule with exact contents

Proved here (for all token lists): what follows the optional spacer is what gets attached;
each attached group's text is exactly the tokens between its delimiters (conservation of the
argument readers); a bracket outside argument position is a leaf needing no partner; foreign
brackets inside a brace group neither end nor start a group. The exact-run statement over
the separator × position product ("blank line detaches") needs the tokenizer inverse and the
reader's completeness (Core C); it is decided by the correspondence and explored by the
oracle on every run and is listed as partial.
-/
namespace TexSoup.C09

/-- A `[` or `]` (or any token that is not `\`, `{` or a math opener) read where an expression
is expected – i.e. not right after a command – is a text leaf; nothing has to match it. -/
theorem bracket_needs_no_partner (f : Nat) (skip : List Str) (tol : Bool) (mode : Mode) (c : Tok)
    (ts : List Tok) (h : c.cat = .BracketBegin ∨ c.cat = .BracketEnd) :
    readExpr (f + 1) skip tol mode (c :: ts) = .ok (.text c.text c.pos, ts) :=
  readExpr_leaf f skip tol mode c ts (bracket_is_leaf c h)

/-- Inside a brace group, closing/opening *brackets* are ordinary leaves: the group ends only
at its own closing brace (and symmetrically for a bracket group and braces-free bodies). -/
theorem group_closes_only_on_own_delimiter (k : GKind) (pos : Int) (tol : Bool) (mode : Mode)
    (b : List Tok) (c : Tok) (rest : List Tok) (x : Nat)
    (hb : ∀ t ∈ b, isLeafTok t = true ∧ (t.cat == k.tokEnd) = false) (hc : (c.cat == k.tokEnd) = true) :
    readArg (b.length + 2 + x) k pos tol mode (b ++ c :: rest) = .ok (.group k (b.map leafOf) pos, rest) :=
  group_of_leaves k pos tol mode b c rest x hb hc

/-- With an open signature the first argument is the group that stands right after the
optional spacer token – nothing else can become the first argument. -/
theorem first_argument_is_next_group {g : Nat} {tol : Bool} {mode : Mode} {r : List Tok} {a0 : Expr}
    {as : List Expr} {rest : List Tok} (h : readArgs g (-1) (-1) tol mode r = .ok (a0 :: as, rest) ) :
    ∃ o r3 k g' ts', (readSpacer r).2 = o :: r3 ∧ gkindOfBegin o.cat = some k ∧
      readArg g' k o.pos tol mode r3 = .ok (a0, ts') :=
  readArgs_first h

/-- Exact contents: the argument list serialises to exactly the tokens it consumed, minus
spacer tokens standing directly before an opener (every fuel, every signature, every mode). -/
theorem arguments_have_exact_contents (skip0 : List Str) (f : Nat) (nreq nopt : Int) (tol : Bool)
    (mode : Mode) (ts : List Tok) (args : List Expr) (rest : List Tok)
    (h : readArgs f nreq nopt tol mode ts = .ok (args, rest)) (hy : Hyp skip0 ts)
    (hnb : noBareA args = true) : Cons tol ts (serL args) rest :=
  (consAt skip0 f).2.2.2.2.2.2.2.1 _ _ _ _ _ _ _ h hy hnb

/-- A spacer is dropped only in front of an opener: the `Del` relation has no other way to
lose a token. -/
theorem spacer_dropped_only_before_opener {tol : Bool} {t o : Tok} {ts : List Tok} {out : Str}
    (hs : t.cat = .MergedSpacer) (ho : isOpener o = true) (h : Del tol (o :: ts) out) :
    Del tol (t :: o :: ts) out := Del.drop t o hs ho h

/-! Non-vacuity: `{a]b}` is one brace group with three leaves. -/
example : readArg 5 .brace 0 false .nonMath
    [⟨[97], 1, .Text⟩, ⟨[93], 2, .BracketEnd⟩, ⟨[98], 3, .Text⟩, ⟨[125], 4, .GroupEnd⟩] =
    .ok (.group .brace [.text [97] 1, .text [93] 2, .text [98] 3] 0, []) := by rfl

end TexSoup.C09
