import TexSoupProofs.Properties.TokFacts
import TexSoupModel.Read
/-!
# C17 – The result depends only on the source text; parses are isolated

What a functional model can carry: (1) the only thing `tex.read` does with non-string input
is `''.join(itertools.chain(*tex))`, which is concatenation of the chunks; (2) the one place
where the code iterates over a *set* (`PUNCTUATION_COMMANDS`, whose iteration order depends
on the interpreter's hash seed) gives the same answer for every order, because the table is
prefix-free; (3) `parse` is a function of the source and the options. That the implementation
agrees with this function across input forms, hash seeds and interleavings is translation
validation, carried by the correspondence and the oracle of the check.
-/
namespace TexSoup.C17

/-- `''.join(itertools.chain(*chunks))`: iterate every chunk character by character, join. -/
def joinChunks (chunks : List Str) : Str := ((chunks.flatMap fun c => c.map fun ch => [ch]).flatten)

/-- (1) chunked input is the concatenation of the chunks, for every chunking. -/
theorem flatten_chunks (chunks : List Str) : joinChunks chunks = chunks.flatten := by
  unfold joinChunks
  induction chunks with
  | nil => rfl
  | cons c cs ih =>
    simp only [List.flatMap_cons, List.flatten_append, List.flatten_cons, ih]
    congr 1
    induction c with
    | nil => rfl
    | cons a c ihc => simp [ihc]

/-- every split of a source into chunks parses to the same result -/
theorem chunking_irrelevant (tol : Bool) (skip : List Str) (s : Str) (chunks : List Str)
    (h : chunks.flatten = s) : parse tol skip (joinChunks chunks) = parse tol skip s := by
  rw [flatten_chunks, h]

/-- (2) the sizing-command table is prefix-free ... -/
theorem table_prefixFree : PrefixFree Tables.punctuationCommands := punctuationCommands_prefixFree

/-- ... so the command found does not depend on the order in which the set is iterated. -/
theorem iteration_order_irrelevant (tbl' : List Str) (hp : tbl'.Perm Tables.punctuationCommands)
    (rest : Str) : firstMatch tbl' rest = firstMatch Tables.punctuationCommands rest :=
  firstMatch_perm punctuationCommands_prefixFree hp rest

/-- (3) same source and options, same result (the model is a function; stated for the record). -/
theorem deterministic (tol : Bool) (skip : List Str) (s s' : Str) (h : s = s') :
    parse tol skip s = parse tol skip s' := by rw [h]

/-! Non-vacuity: a three-chunk split; and the old table (with `left.|`) was *not* prefix-free. -/
example : joinChunks [[92, 97], [], [123, 125]] = [92, 97, 123, 125] := by decide
example : ¬ PrefixFree ([108, 101, 102, 116, 46] :: [108, 101, 102, 116, 46, 124] :: []) := by
  intro h
  have := h [108, 101, 102, 116, 46] (by simp) [108, 101, 102, 116, 46, 124] (by simp) (by decide)
  revert this
  decide

end TexSoup.C17
