import TexSoupProofs.SearchLemmas
/-!
# C03 - Search returns exactly the matching nodes

"Searching a parsed document by name returns exactly the commands and environments of that
name that occur in the tree's environment bodies, list items, math regions, brace groups and
argument groups - each once, none missing, none spurious. `find` is the first element of
`find_all` or None, `count` is its length, attribute access (soup.name) equals `find`, a list
of names matches the union, an absent name matches nothing, and a full-expression query such
as `\ref{x}` or `\begin{equation}` matches exactly the nodes whose text (resp. opening) equals
it."

All theorems hold for every tree and every search root. A search at the document root is
`findAllRoot q es = findAll q (rootWrap es)` (`findAll_root`). "By name" means a query that
`__match__` treats as a name: `plainName` (no `{`, no `[`, and not one of `]` `}` `\]` `\(`
`\)`, which `TexEnv.__match__` accepts as delimiters); `plainName_exact` shows that this
condition cannot be weakened. Paths need `Expr.flatArgs` (see C04).

Where the code does more than the property text says (`findAll_fullexpr`): a query with `{`
or `[` also matches an environment by its closing delimiter (`\end{equation}`), by
`\begin{name}` followed by its arguments, and a brace/bracket group by its opening delimiter
(`{`, `[`).
-/
namespace TexSoup.C03
open TexSoup

/-- `\begin{i}[ \b]⏎\it A$B${\b}\end{i}` -/
def sample : Expr :=
  .nenv [105] [.group .bracket [.text [32] 10, .cmd [98] [] [] 11] 9]
    [.text [10] 14,
     .cmd [105, 116] [] [.text [65] 18, .math .dollar [.text [66] 20] 19] 15,
     .group .brace [.cmd [98] [] [] 23] 22] 0

/-! ## `find_all` -/

/-- `find_all` filters `descendants` with `__match__` (text has none). -/
theorem findAll_spec (q : Query) (e : Expr) :
    findAll q e = (descOf e).filter (fun x => !x.isText && matchesQ q x) := rfl

/-- searching the document is searching from the root node -/
theorem findAll_root (q : Query) (es : List Expr) : findAllRoot q es = findAll q (rootWrap es) :=
  findAllRoot_eq_wrap q es

/-- For a plain name, `__match__` of a command or environment compares names. -/
theorem match_plain {n : Str} (hn : plainName n = true) (x : Expr) :
    matchesQ (.name n) x = (x.name == n) := matchesQ_plain hn x

/-- The side condition is exact: for any other query string some command or environment is
matched although its name differs, or not matched although its name is equal. -/
theorem plainName_necessary {n : Str} (hn : plainName n = false) :
    ∃ x : Expr, x.isText = false ∧ matchesQ (.name n) x ≠ (x.name == n) := plainName_exact hn

/-- `occ n e` (a structural pre-order enumeration over argument contents and bodies) lists
exactly the commands and environments named `n` at the non-empty paths below `e`. -/
theorem occ_spec (n : Str) (e : Expr) (p : Path) (x : Expr) :
    (p, x) ∈ occ n e ↔ p ≠ [] ∧ getAt e p = some x ∧ x.isText = false ∧ x.name = n := mem_occ_iff

/-- Searching by name returns exactly the occurrences of the name - each once (the paths are
distinct), none missing, none spurious (a permutation of `occ`, which by `occ_spec` is
complete and sound). -/
theorem findAll_name_occ {n : Str} (hn : plainName n = true) {e : Expr} (he : e.flatArgs = true) :
    (findAll (.name n) e).Perm ((occ n e).map Prod.snd) ∧ ((occ n e).map Prod.fst).Nodup :=
  ⟨findAll_perm_occ hn he, occ_nodup n e⟩

/-- the same for a search of the whole document -/
theorem findAll_name_occ_root {n : Str} (hn : plainName n = true) {es : List Expr}
    (he : flatArgsL es = true) :
    (findAllRoot (.name n) es).Perm ((occRoot n es).map Prod.snd) ∧
      ((occRoot n es).map Prod.fst).Nodup := by
  rw [findAll_root]
  exact findAll_name_occ hn (by rw [flatArgs_rootWrap]; exact he)

/-- The order of the results is the order of `descendants`; each result with its path. -/
theorem findAll_name_order {n : Str} (hn : plainName n = true) {e : Expr} (he : e.flatArgs = true) :
    findAll (.name n) e = ((descP [] e).filter (fun px => px.2.named n)).map Prod.snd :=
  findAll_plain_paths hn he

/-- without paths (no condition on the tree) -/
theorem findAll_name_filter {n : Str} (hn : plainName n = true) (e : Expr) :
    findAll (.name n) e = (descOf e).filter (fun x => !x.isText && x.name == n) :=
  findAll_plain hn e

example : plainName [98] = true := by decide
example : findAll (.name [98]) sample = [.cmd [98] [] [] 11, .cmd [98] [] [] 23] := rfl
example : occ [98] sample = [([.arg 0 1], .cmd [98] [] [] 11), ([.body 2, .body 0], .cmd [98] [] [] 23)] :=
  rfl
example : findAll (.name [36]) sample = [.math .dollar [.text [66] 20] 19] := rfl

/-! ## `find`, `count`, attribute access -/

/-- `find` is the first element of `find_all`, or `None`. -/
theorem find_eq_head (q : Query) (e : Expr) : find q e = (findAll q e).head? := rfl

/-- `count` is the length of `find_all`. -/
theorem count_eq_length (q : Query) (e : Expr) : count q e = (findAll q e).length := rfl

/-- `soup.name` (`__getattr__`: `self.find(attr) or None`) is `find`. -/
theorem getattr_eq_find (n : Str) (e : Expr) : getattrOf n e = find (.name n) e := by
  unfold getattrOf
  cases find (.name n) e <;> rfl

example : find (.name [98]) sample = some (.cmd [98] [] [] 11) := rfl
example : count (.name [98]) sample = 2 := rfl
example : find (.name [99]) sample = none := rfl

/-! ## Lists of names -/

/-- A list of names matches the union. -/
theorem findAll_names_union {l : List Str} (hl : ∀ n ∈ l, plainName n = true) (e x : Expr) :
    x ∈ findAll (.names l) e ↔ ∃ n ∈ l, x ∈ findAll (.name n) e := mem_findAll_names hl e x

/-- ... in the order of `descendants`. -/
theorem findAll_names_order {l : List Str} (hl : ∀ n ∈ l, plainName n = true) (e : Expr) :
    findAll (.names l) e = (descOf e).filter (fun x => !x.isText && l.contains x.name) :=
  findAll_names hl e

example : findAll (.names [[98], [36]]) sample =
    [.cmd [98] [] [] 11, .math .dollar [.text [66] 20] 19, .cmd [98] [] [] 23] := rfl

/-! ## Absent names -/

/-- An absent name matches nothing. -/
theorem findAll_absent {n : Str} (hn : plainName n = true) {e : Expr} (he : e.flatArgs = true)
    (h : ∀ p x, p ≠ [] → getAt e p = some x → x.isText = false → x.name ≠ n) :
    findAll (.name n) e = [] := by
  refine findAll_absent_of_occ hn he ?_
  cases hocc : occ n e with
  | nil => rfl
  | cons px l =>
    have hm : (px.1, px.2) ∈ occ n e := by rw [hocc]; simp
    obtain ⟨h1, h2, h3, h4⟩ := (occ_spec n e _ _).1 hm
    exact absurd h4 (h _ _ h1 h2 h3)

/-- without paths: no descendant carries the name (no condition on the tree) -/
theorem findAll_absent' {n : Str} (hn : plainName n = true) (e : Expr)
    (h : ∀ x ∈ descOf e, x.isText = false → x.name ≠ n) : findAll (.name n) e = [] := by
  rw [findAll_name_filter hn, List.filter_eq_nil_iff]
  intro x hx
  cases ht : x.isText with
  | true => simp
  | false => simpa [ht] using h x hx ht

example : findAll (.name [99]) sample = [] := rfl

/-! ## Full-expression queries -/

/-- A query containing `{` or `[` matches exactly the commands and environments whose text
equals it, and the environments whose `\begin{name}` + arguments, `\begin{name}`, closing
delimiter or name equals it. -/
theorem findAll_fullexpr {s : Str} (hs : s.contains 123 = true ∨ s.contains 91 = true)
    (e x : Expr) :
    x ∈ findAll (.name s) e ↔ x ∈ descOf e ∧ x.isText = false ∧
      (ser x = s ∨ (x.isEnv = true ∧
        (s = x.beginStr ++ serL x.args ∨ s = x.beginStr ∨ s = x.endStr ∨ s = x.name))) := by
  have hc : (s.contains 123 || s.contains 91) = true := by simpa using hs
  rw [mem_findAll_name, hc]
  simp only [if_true]
  constructor
  · rintro ⟨h1, h2, (⟨h3, h4 | h4 | h4 | h4⟩ | h3)⟩
    · exact ⟨h1, h2, Or.inr ⟨h3, Or.inr (Or.inr (Or.inr h4))⟩⟩
    · exact ⟨h1, h2, Or.inr ⟨h3, Or.inl h4⟩⟩
    · exact ⟨h1, h2, Or.inr ⟨h3, Or.inr (Or.inl h4)⟩⟩
    · exact ⟨h1, h2, Or.inr ⟨h3, Or.inr (Or.inr (Or.inl h4))⟩⟩
    · exact ⟨h1, h2, Or.inl h3⟩
  · rintro ⟨h1, h2, (h3 | ⟨h3, h4 | h4 | h4 | h4⟩)⟩
    · exact ⟨h1, h2, Or.inr h3⟩
    · exact ⟨h1, h2, Or.inl ⟨h3, Or.inr (Or.inl h4)⟩⟩
    · exact ⟨h1, h2, Or.inl ⟨h3, Or.inr (Or.inr (Or.inl h4))⟩⟩
    · exact ⟨h1, h2, Or.inl ⟨h3, Or.inr (Or.inr (Or.inr h4))⟩⟩
    · exact ⟨h1, h2, Or.inl ⟨h3, Or.inl h4⟩⟩

/-- For a command (`\ref{x}`) only the text counts. -/
theorem findAll_fullexpr_cmd {s : Str} (hs : s.contains 123 = true ∨ s.contains 91 = true)
    (e : Expr) (n : Str) (a b : List Expr) (p : Int) :
    .cmd n a b p ∈ findAll (.name s) e ↔ .cmd n a b p ∈ descOf e ∧ ser (.cmd n a b p) = s := by
  rw [findAll_fullexpr hs]
  simp [Expr.isText, Expr.isEnv]

/-- `\it` with its body, `\begin{i}`, `\end{i}`, `{` as queries -/
example : findAll (.name [92, 98, 101, 103, 105, 110, 123, 105, 125]) (.group .brace [sample] 0)
    = [sample] := rfl
example : findAll (.name [92, 101, 110, 100, 123, 105, 125]) (.group .brace [sample] 0)
    = [sample] := rfl
example : findAll (.name [123, 92, 98, 125]) sample = [.group .brace [.cmd [98] [] [] 23] 22] := rfl
example : findAll (.name [123]) sample = [.group .brace [.cmd [98] [] [] 23] 22] := rfl

end TexSoup.C03
