import TexSoupProofs.Reader.HypCheck
/-!
# C08 – Serialisation conserves the characters of any parseable input

Statement of the property: whenever parsing an arbitrary string succeeds, the serialised
result consists of exactly the characters of the input in the same order; the only permitted
difference is the removal of whitespace runs that stand directly before the opening brace or
bracket of an argument group. (Inputs free of NUL/DEL; mandatory arguments of fixed-signature
commands brace-delimited.)

The theorems are about the model (`TexSoupModel/Read.lean`), which the correspondence check
ties to `TexSoup/reader.py`. `Del false ts out` says: `out` is the concatenation of the token
texts of `ts` minus some `MergedSpacer` tokens each directly followed by a `{`/`[` token.
Hypotheses beyond the property's own side conditions are the bundle `Hyp`: its lexical
fields are theorems about the tokenizer (`TokHyp.lean`); `envPlain` excludes the recorded
finding F4b (blank-padded or bracket-delimited environment names), `skipPlain` exotic names
of verbatim-like environments.
-/
namespace TexSoup.C08

/-- Conservation at token level, for every input, every skip list, strict mode. -/
theorem conservation (skip : List Str) (s : Str) (ts : List Tok) (es : List Expr)
    (ht : tokenize s = some ts) (h : parse false skip s = .ok es)
    (hy : Hyp (Tables.skipEnvNames ++ skip) ts) (hnb : noBareL es = true) :
    Del false ts (serL es) :=
  parse_cons false skip s ts es ht h hy hnb

/-- Nothing is invented, duplicated or reordered: the output is a sublist of the token text. -/
theorem output_sublist (skip : List Str) (s : Str) (ts : List Tok) (es : List Expr)
    (ht : tokenize s = some ts) (h : parse false skip s = .ok es)
    (hy : Hyp (Tables.skipEnvNames ++ skip) ts) (hnb : noBareL es = true) :
    (serL es).Sublist (flat ts) :=
  (conservation skip s ts es ht h hy hnb).strict_sublist

/-- If no spacer token stands directly before an opener, nothing at all is removed. -/
theorem output_exact (skip : List Str) (s : Str) (ts : List Tok) (es : List Expr)
    (ht : tokenize s = some ts) (h : parse false skip s = .ok es)
    (hy : Hyp (Tables.skipEnvNames ++ skip) ts) (hnb : noBareL es = true)
    (hsp : noSpacerBeforeOpener ts = true) : serL es = flat ts :=
  (conservation skip s ts es ht h hy hnb).strict_exact hsp

/-- The same invariant for every reader function, every fuel, every mode (Core A). -/
theorem reader_invariant (skip0 : List Str) (f : Nat) : ConsAt skip0 f := consAt skip0 f

/-! Non-vacuity: `\a {b}` (a spacer is dropped) satisfies every hypothesis, and the conclusion
is not an equality there. -/
section
def ex1 : Str := [92, 97, 32, 123, 98, 125]      -- \a {b}
example : ∃ ts es, tokenize ex1 = some ts ∧ parse false [] ex1 = .ok es ∧
    Hyp (Tables.skipEnvNames ++ []) ts ∧ noBareL es = true ∧ serL es ≠ flat ts := by
  refine ⟨[⟨[92], 0, .Escape⟩, ⟨[97], 1, .CommandName⟩, ⟨[32], 2, .MergedSpacer⟩,
    ⟨[123], 3, .GroupBegin⟩, ⟨[98], 4, .Text⟩, ⟨[125], 5, .GroupEnd⟩],
    [.cmd [97] [.group .brace [.text [98] 4] 3] [] 0], by decide +kernel, by rfl,
    Hyp.ofChecks (by decide +kernel) (by decide +kernel) (by decide +kernel) (by decide +kernel),
    by decide +kernel, by decide +kernel⟩
end

end TexSoup.C08
