import TexSoupProofs.Reader.HypCheck
import TexSoupProofs.Properties.TokHyp
import TexSoupProofs.Properties.C19
import TexSoupProofs.TokLemmas.SpacerWs
/-!
# C08 – Serialisation conserves the characters of any parseable input

Statement of the property: whenever parsing an arbitrary string succeeds, the serialised
result consists of exactly the characters of the input in the same order; the only permitted
difference is the removal of whitespace runs that stand directly before the opening brace or
bracket of an argument group. (Inputs free of NUL/DEL; mandatory arguments of fixed-signature
commands brace-delimited.)

The theorems are about the model (`TexSoupModel/Read.lean`), which the correspondence check
ties to `TexSoup/reader.py`. `Del false ts out` says: `out` is the concatenation of the token
texts of `ts` minus some `MergedSpacer` tokens each directly followed by a `{`/`[` token.
Hypotheses beyond the property's own side conditions are the bundle `Hyp`: its lexical
fields are theorems about the tokenizer (`TokHyp.lean`); `envPlain` excludes the recorded
finding F4b (blank-padded or bracket-delimited environment names), `skipPlain` exotic names
of verbatim-like environments.
-/
namespace TexSoup.C08

/-- Conservation at token level, for every input, every skip list, strict mode. -/
theorem conservation (skip : List Str) (s : Str) (ts : List Tok) (es : List Expr)
    (ht : tokenize s = some ts) (h : parse false skip s = .ok es)
    (hy : Hyp (Tables.skipEnvNames ++ skip) ts) (hnb : noBareL es = true) :
    Del false ts (serL es) :=
  parse_cons false skip s ts es ht h hy hnb

/-- Nothing is invented, duplicated or reordered: the output is a sublist of the token text. -/
theorem output_sublist (skip : List Str) (s : Str) (ts : List Tok) (es : List Expr)
    (ht : tokenize s = some ts) (h : parse false skip s = .ok es)
    (hy : Hyp (Tables.skipEnvNames ++ skip) ts) (hnb : noBareL es = true) :
    (serL es).Sublist (flat ts) :=
  (conservation skip s ts es ht h hy hnb).strict_sublist

/-- If no spacer token stands directly before an opener, nothing at all is removed. -/
theorem output_exact (skip : List Str) (s : Str) (ts : List Tok) (es : List Expr)
    (ht : tokenize s = some ts) (h : parse false skip s = .ok es)
    (hy : Hyp (Tables.skipEnvNames ++ skip) ts) (hnb : noBareL es = true)
    (hsp : noSpacerBeforeOpener ts = true) : serL es = flat ts :=
  (conservation skip s ts es ht h hy hnb).strict_exact hsp

/-- Finding F4b excluded, stated on the tokens: whenever an argument list is read right after
`\begin` / `\end`, its first group is a brace group whose text has no surrounding blanks and
contains no made-up braces. -/
def EnvNamesPlain (ts : List Tok) : Prop :=
  ∀ pre esc n r, ts = pre ++ esc :: n :: r → esc.cat = .Escape → (n.text = sBegin ∨ n.text = sEnd) →
    ∀ g nreq nopt tol mode a0 as rest, readArgs g nreq nopt tol mode r = .ok (a0 :: as, rest) →
      (∃ b p, a0 = .group .brace b p) ∧ strip a0.string = a0.string ∧ noBareA [a0] = true

theorem memStr_append {x : Str} {a b : List Str} (h : memStr x (a ++ b) = true) :
    memStr x a = true ∨ memStr x b = true := by
  induction a with
  | nil => exact .inr h
  | cons y a ih =>
    simp only [List.cons_append, memStr, Bool.or_eq_true] at h ⊢
    rcases h with h | h
    · exact .inl (.inl h)
    · rcases ih h with h | h
      · exact .inl (.inr h)
      · exact .inr h

/-- C08 on strings: for an input free of NUL/DEL that parses strictly, with plain names for
the user's verbatim-like environments, environment names as in `EnvNamesPlain` and no
made-up arguments in the result: the tokens partition the input exactly and the output is
their text minus spacers standing directly before an opener. -/
theorem conservation_string (skip : List Str) (s : Str) (es : List Expr)
    (hs : ∀ c ∈ s, isIgnored (catOf c) = false) (h : parse false skip s = .ok es)
    (hskip : ∀ n, memStr n skip = true → PlainEnvName n)
    (henv : ∀ ts, tokenize s = some ts → EnvNamesPlain ts) (hnb : noBareL es = true) :
    ∃ ts, tokenize s = some ts ∧ flat ts = s ∧ Del false ts (serL es) ∧ (serL es).Sublist s := by
  obtain ⟨ts, ht⟩ := tokenize_total s
  have hy : Hyp (Tables.skipEnvNames ++ skip) ts :=
    lexical_hyp hs ht (fun n hn => by
      rcases memStr_append hn with h1 | h1
      · exact skipEnvNames_memStr_plain n h1
      · exact hskip n h1) (henv ts ht)
  have hflat := tokenize_lossless hs ht
  have hd := conservation skip s ts es ht h hy hnb
  exact ⟨ts, ht, hflat, hd, hflat ▸ hd.strict_sublist⟩

/-- What may be removed is whitespace: every `MergedSpacer` token of a tokenizer output
consists of characters with `str.isspace()` (re-checked against the generated category table:
filing a non-blank character such as `~` under `Spacer` breaks this theorem). -/
theorem dropped_tokens_are_whitespace {s : Str} {ts : List Tok} (h : tokenize s = some ts) :
    ∀ t ∈ ts, t.cat = .MergedSpacer → ∀ c ∈ t.text, isSpaceCh c = true :=
  tokens_spacer_whitespace h

/-- The same invariant for every reader function, every fuel, every mode (Core A). -/
theorem reader_invariant (skip0 : List Str) (f : Nat) : ConsAt skip0 f := consAt skip0 f

/-! Non-vacuity: `\a {b}` (a spacer is dropped) satisfies every hypothesis, and the conclusion
is not an equality there. -/
section
def ex1 : Str := [92, 97, 32, 123, 98, 125]      -- \a {b}
example : ∃ ts es, tokenize ex1 = some ts ∧ parse false [] ex1 = .ok es ∧
    Hyp (Tables.skipEnvNames ++ []) ts ∧ noBareL es = true ∧ serL es ≠ flat ts := by
  refine ⟨[⟨[92], 0, .Escape⟩, ⟨[97], 1, .CommandName⟩, ⟨[32], 2, .MergedSpacer⟩,
    ⟨[123], 3, .GroupBegin⟩, ⟨[98], 4, .Text⟩, ⟨[125], 5, .GroupEnd⟩],
    [.cmd [97] [.group .brace [.text [98] 4] 3] [] 0], by decide +kernel, by rfl,
    Hyp.ofChecks (by decide +kernel) (by decide +kernel) (by decide +kernel) (by decide +kernel),
    by decide +kernel, by decide +kernel⟩
end

end TexSoup.C08
