import TexSoupModel.Pos
import TexSoupProofs.PosSpec
import TexSoupProofs.PosLemmas
/-!
# C13, clause "char_pos_to_line": the line/column map is the true one

Specification (`TexSoupProofs/PosSpec.lean`): the line of offset `p` is the number of LF characters before it, its column
is its distance from the position just after the last LF before it (from 0 if there is
none). `lineStart` is pinned down by `lineStart_no_lf`/`lineStart_after_lf` (and
`PosLemmas.split_last_lf`: these two cases are all there are).
-/
namespace TexSoup
namespace C13Lines
open PosLemmas PosSpec

/-- Specification sanity: without a line break the line starts at 0. -/
theorem lineStart_no_lf (t : Str) (h : 10 ∉ t) : lineStart t = 0 := by
  have : t.reverse.takeWhile (· != 10) = t.reverse :=
    takeWhile_ne_lf_of_not_mem _ (by simpa using h)
  simp [lineStart, this]
example : lineStart [97, 98] = 0 := by decide

/-- Specification sanity: after `pre LF seg` with `seg` LF-free the line starts behind that LF. -/
theorem lineStart_after_lf (pre seg : Str) (h : 10 ∉ seg) :
    lineStart (pre ++ 10 :: seg) = pre.length + 1 := by
  have h1 : seg.reverse.takeWhile (· != 10) = seg.reverse :=
    takeWhile_ne_lf_of_not_mem _ (by simpa using h)
  have : (pre ++ 10 :: seg).reverse.takeWhile (· != 10) = seg.reverse := by
    simp only [List.reverse_append, List.reverse_cons, List.append_assoc, List.takeWhile_append, h1]
    simp
  unfold lineStart
  rw [this]
  simp; omega
example : lineStart [97, 10, 10, 98, 99] = 3 := by decide

/-- **C13 (line/column clause).** For every string and every offset `p` up to and
including its length, the model of the repaired `CharToLineOffset.__call__` returns the
number of line breaks before `p` and the distance of `p` from the start of its line.
(`p < s.length` is the property's "every offset 0..len-1"; the end offset `p = s.length`
is covered too.) -/
theorem charPosToLine_correct_le (s : Str) (p : Nat) (hp : p ≤ s.length) :
    charPosToLine s p = ((lineCol s p).1, ((lineCol s p).2 : Int)) := by
  have hlen : (s.take p).length = p := by simp [Nat.min_eq_left hp]
  simp only [charPosToLine, lineCol, bisectLeft_lineBreaks]
  rcases split_last_lf (s.take p) with h | ⟨pre, seg, ht, hseg⟩
  · have hc : (s.take p).count 10 = 0 := List.count_eq_zero.mpr h
    simp [lineColOf, hc, lineStart_no_lf _ h]
  · have hget := lineBreaks_getD_pred s p pre seg ht hseg
    have hc : (s.take p).count 10 = pre.count 10 + 1 := by
      rw [ht]; simp [List.count_append, List.count_eq_zero.mpr hseg]
    have hst : lineStart (s.take p) = pre.length + 1 := by
      rw [ht]; exact lineStart_after_lf pre seg hseg
    have hpl : p = pre.length + 1 + seg.length := by
      rw [← hlen, ht]; simp; omega
    have hne : (s.take p).count 10 ≠ 0 := by omega
    simp only [lineColOf, hne, if_false, hst]
    split
    · next heq =>
      rw [← heq, hget]
      simp only [Prod.mk.injEq, true_and]
      omega
    · rw [hget]
      simp only [Prod.mk.injEq, true_and]
      omega

/-- **C13 (line/column clause), as quantified in the property:** every offset
`0 .. len-1`. -/
theorem charPosToLine_correct (s : Str) (p : Nat) (hp : p < s.length) :
    charPosToLine s p = ((lineCol s p).1, ((lineCol s p).2 : Int)) :=
  charPosToLine_correct_le s p (Nat.le_of_lt hp)
-- "ab\ncd": offset 2 is the LF itself (line 0, column 2), offset 3 is `c` (line 1, column 0)
example : charPosToLine [97, 98, 10, 99, 100] 2 = (0, 2) ∧ lineCol [97, 98, 10, 99, 100] 2 = (0, 2) := by
  decide
example : charPosToLine [97, 98, 10, 99, 100] 3 = (1, 0) ∧ lineCol [97, 98, 10, 99, 100] 3 = (1, 0) := by
  decide

/-- The end offset `p = len(s)` (one past the last character) is mapped correctly as well. -/
theorem charPosToLine_correct_at_end (s : Str) :
    charPosToLine s s.length = ((lineCol s s.length).1, ((lineCol s s.length).2 : Int)) :=
  charPosToLine_correct_le s s.length (Nat.le_refl _)
example : charPosToLine [97, 98, 10] 3 = (1, 0) := by decide

/-- Beyond the end the map is *not* the arithmetic continuation: with at least one line
break the column is clamped by `min(.., src_len - line_start)`, i.e. it stays at the value
of offset `len + 1`; without a line break the offset is returned unchanged. (Outside the
property's quantifier; recorded so that the behaviour of the `min` is on file.) -/
theorem charPosToLine_beyond_end (s : Str) (p : Nat) (hp : s.length < p) :
    charPosToLine s p =
      (s.count 10, if 10 ∈ s then ((s.length - (lineStart s - 1) : Nat) : Int) else (p : Int)) := by
  have htk : s.take p = s := List.take_of_length_le (by omega)
  simp only [charPosToLine, bisectLeft_lineBreaks, htk]
  rcases split_last_lf s with h | ⟨pre, seg, ht, hseg⟩
  · simp [lineColOf, List.count_eq_zero.mpr h, h]
  · have hget := lineBreaks_getD_pred s p pre seg (htk.symm ▸ ht) hseg
    rw [htk] at hget
    have hc : s.count 10 = pre.count 10 + 1 := by
      rw [ht]; simp [List.count_append, List.count_eq_zero.mpr hseg]
    have hst : lineStart s = pre.length + 1 := by rw [ht]; exact lineStart_after_lf pre seg hseg
    have hmem : 10 ∈ s := by rw [ht]; simp
    have hl : (lineBreaks s).length = s.count 10 := length_lineBreaksFrom 0 s
    have hsl : s.length = pre.length + 1 + seg.length := by rw [ht]; simp; omega
    have hne : s.count 10 ≠ 0 := by omega
    simp only [lineColOf, hne, if_false, hl, if_true, hmem, hst, hget]
    simp only [Prod.mk.injEq, true_and]
    omega
example : charPosToLine [97, 98, 10, 99, 100] 9 = (1, 3) := by decide

namespace Legacy
/-- **Negative result (defect F6, before the repair).** With `bisect.bisect` (= `bisect_right`)
the offset of a line break itself is reported as column `-1` of the *next* line: in
`"ab\ncd"` offset 2 (the LF, truly line 0 column 2) comes out as `(1, -1)`. -/
theorem charPosToLine_wrong_at_lf :
    TexSoup.Legacy.charPosToLine [97, 98, 10, 99, 100] 2 = (1, -1) ∧
    lineCol [97, 98, 10, 99, 100] 2 = (0, 2) := by
  decide

/-- The legacy code is wrong at *every* line break: at the offset of an LF it reports the
following line (and hence a line number the true map never gives to that offset). -/
theorem charPosToLine_wrong_at_every_lf (s : Str) (p : Nat) (hp : p < s.length)
    (hlf : s[p]? = some 10) :
    (TexSoup.Legacy.charPosToLine s p).1 = (lineCol s p).1 + 1 := by
  have hlt : p < s.length := hp
  have h10 : s[p] = 10 := by
    have := List.getElem?_eq_getElem hlt
    rw [this] at hlf; exact Option.some.inj hlf
  have hn : bisectRight (lineBreaks s) p = (s.take (p + 1)).count 10 := by
    rw [bisectRight_eq _ _ (show (lineBreaks s).Pairwise (· < ·) from lineBreaksFrom_pairwise 0 s),
      filter_le_lineBreaks]
    exact length_lineBreaksFrom 0 _
  have htk : s.take (p + 1) = s.take p ++ [10] := by
    rw [List.take_succ_eq_append_getElem hlt, h10]
  have hfst : ∀ lbs len n, (lineColOf lbs len p n).1 = n := by
    intro lbs len n; unfold lineColOf; split
    · rfl
    · split <;> rfl
  simp only [TexSoup.Legacy.charPosToLine, hfst, hn, htk, lineCol]
  simp [List.count_append]
end Legacy

end C13Lines
end TexSoup
