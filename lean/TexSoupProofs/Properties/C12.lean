import TexSoupProofs.Reader.Leaves
import TexSoupProofs.Properties.TokFacts
/-!
# C12 – Math regions are delimited correctly and tolerate unbalanced brackets

Proved here: (tokenizer, all inputs) `$$` is taken greedily, a single `$` otherwise; `\$` is an
escaped symbol, never a switch; `\(`, `\)`, `\[`, `\]` are the asymmetric switches; every entry
of the sizing table is one command-name token when it follows a backslash, independently of
the table's iteration order (the table is prefix-free); (reader, all token lists) an opener,
any run of leaf tokens – unbalanced brackets included – and the matching closer give one math
node of that kind with exactly those leaves. Bodies containing commands, groups and nested
environments need the reader's completeness (Core C): explored by the oracle, partial.
-/
namespace TexSoup.C12

theorem double_dollar_greedy (pt : Option TC) (prev : Option Ch) (pos : Nat) (c0 c1 : Ch) (r : Str)
    (h0 : catOf c0 = .MathSwitch) (h1 : catOf c1 = .MathSwitch) :
    pass Tables.tokenizerOrder pt ⟨prev, pos, c0 :: c1 :: r⟩ =
      .tok ⟨[c0, c1], pos, .DisplayMathSwitch⟩ ⟨some c1, pos + 2, r⟩ :=
  first_mathSwitch_two pt prev pos c0 c1 r h0 h1

theorem escaped_dollar_is_no_switch (pt : Option TC) (prev : Option Ch) (pos : Nat) (c0 c1 : Ch) (r : Str)
    (h0 : catOf c0 = .Escape) (h1 : isEscapable (catOf c1) = true) :
    pass Tables.tokenizerOrder pt ⟨prev, pos, c0 :: c1 :: r⟩ =
      .tok ⟨[c0, c1], pos, .EscapedComment⟩ ⟨some c1, pos + 2, r⟩ :=
  first_escaped pt prev pos c0 c1 r h0 h1

theorem dollar_facts : catOf 36 = .MathSwitch ∧ isEscapable (catOf 36) = true := by decide

theorem asymmetric_switch (pt : Option TC) (prev : Option Ch) (pos : Nat) (c0 c1 : Ch) (r : Str)
    (t : TC) (h0 : catOf c0 = .Escape) (h1 : asymSwitch (catOf c1) = some t) :
    pass Tables.tokenizerOrder pt ⟨prev, pos, c0 :: c1 :: r⟩ =
      .tok ⟨[c0, c1], pos, t⟩ ⟨some c1, pos + 2, r⟩ :=
  first_asymSwitch pt prev pos c0 c1 r t h0 h1

/-- every sizing command (prefix + delimiter) is one token after a backslash -/
theorem sizing_command_is_one_token (pt : Option TC) (p : Ch) (pos : Nat) (point r : Str)
    (hp : point ∈ Tables.punctuationCommands) (hesc : catOf p = .Escape) :
    pass Tables.tokenizerOrder pt ⟨some p, pos, point ++ r⟩ =
      .tok ⟨point, pos, .PunctuationCommandName⟩ ⟨lastD point (some p), pos + point.length, r⟩ :=
  first_punctuation pt p pos point r hesc hp

/-- one math node of the opener's kind, body = the enclosed leaves, nothing has to balance -/
theorem math_region (skip : List Str) (tol : Bool) (mode : Mode) (k : MKind) (o c : Tok)
    (b rest : List Tok) (x : Nat) (ho : mkindOfBegin o.cat = some k)
    (hb : ∀ t ∈ b, isLeafTok t = true ∧ (t.cat == k.tokEnd) = false) (hc : (c.cat == k.tokEnd) = true) :
    readExpr (b.length + 3 + x) skip tol mode (o :: (b ++ c :: rest)) =
      .ok (.math k (b.map leafOf) o.pos, rest) :=
  math_region_of_leaves skip tol mode k o c b rest x ho hb hc

/-! Non-vacuity: `$a[b$` – an unmatched bracket inside inline math. -/
example : readExpr 8 [] false .nonMath
    [⟨[36], 0, .MathSwitch⟩, ⟨[97], 1, .Text⟩, ⟨[91], 2, .BracketBegin⟩, ⟨[98], 3, .Text⟩,
     ⟨[36], 4, .MathSwitch⟩] =
    .ok (.math .dollar [.text [97] 1, .text [91] 2, .text [98] 3] 0, []) := by rfl

end TexSoup.C12
