import TexSoupProofs.Reader.Balance
import TexSoupProofs.Reader.EnvBalance
import TexSoupProofs.Reader.TolerantTotal
import TexSoupProofs.Properties.C06
import TexSoupProofs.Properties.TokFacts
/-!
# C07 (b) – A lost closer: strict parsing fails, tolerant parsing succeeds

"For a well-formed document without math, verbatim or list regions that has lost one closing
brace or one `\end{name}`, strict parsing reports an error and tolerant parsing succeeds."

At the level of the reader model "has lost a closer" is a counting statement about the token
list: more `{` than `}` tokens (`closes ts < opens ts`), or more `\begin` than `\end`
(`envCloses ts < envOpens ts`). The statements hold under token-level conditions that say
which documents are meant (definitions in `Reader/Balance.lean`, `Reader/EnvBalance.lean`,
`Reader/TolerantTotal.lean`; each has a Boolean checker with a soundness lemma):

* `WellNamed skip ts` – after every escape comes a name token (neither `{` nor an escape), and
  `\begin` is followed by an optional spacer, `{`, one leaf token, `}`, the leaf not spelling a
  verbatim-like environment of `skip` ("no verbatim region is entered");
* `EnvHyp skip ts` – `WellNamed`, and no name is a special command (`\newcommand` …), none has a
  fixed positive number of mandatory arguments, `\end` is followed by `{` (otherwise `\begin`
  can be consumed as a plain command: `\newcommand{\x}{\begin{a}}`, `\textbf\begin{a}`);
* `TolHyp skip ts` – no math opener, no `\item`, and the `\begin{name}` part of `WellNamed`.

Helper lemmas and the inductions on the fuel live in the `Reader/` files; this file contains
only the property theorems.
-/
namespace TexSoup.C07b

/-! ## 1. The counting invariants (strict mode) -/

/-- Every strict reader function consumes at least as many `}` as `{`; a brace group read after
its opener consumes one more. -/
theorem reader_balanced (skip0 : List Str) (f : Nat) : BalAt skip0 f := balAt skip0 f

/-- Every strict reader function consumes at least as many `\end` as `\begin`; an environment
read after its `\begin{name}` consumes one more. -/
theorem reader_env_balanced (skip0 : List Str) (f : Nat) : EnvBalAt skip0 f := envBalAt skip0 f

/-- Strict success implies that no brace is left open. -/
theorem strict_success_braces (skip : List Str) (s : Str) (ts : List Tok) (es : List Expr)
    (ht : tokenize s = some ts) (hy : WellNamed (Tables.skipEnvNames ++ skip) ts)
    (h : parse false skip s = .ok es) : opens ts ≤ closes ts :=
  parse_balanced skip s ts es ht hy h

/-- Strict success implies that no environment is left open. -/
theorem strict_success_envs (skip : List Str) (s : Str) (ts : List Tok) (es : List Expr)
    (ht : tokenize s = some ts) (hy : EnvHyp (Tables.skipEnvNames ++ skip) ts)
    (h : parse false skip s = .ok es) : envOpens ts ≤ envCloses ts :=
  parse_env_balanced skip s ts es ht hy h

/-! ## 2. A lost closing brace -/

/-- More `{` than `}`: strict parsing does not succeed. -/
theorem lost_brace_strict_fails (skip : List Str) (s : Str) (ts : List Tok)
    (ht : tokenize s = some ts) (hy : WellNamed (Tables.skipEnvNames ++ skip) ts)
    (hlost : closes ts < opens ts) : ∀ es, parse false skip s ≠ .ok es := by
  intro es h
  have := parse_balanced skip s ts es ht hy h
  omega

/-- … and what it reports is one of the three diagnostic errors. -/
theorem lost_brace_strict_error (skip : List Str) (s : Str) (ts : List Tok)
    (ht : tokenize s = some ts) (hy : WellNamed (Tables.skipEnvNames ++ skip) ts)
    (hlost : closes ts < opens ts) :
    parse false skip s = .error .eof ∨ parse false skip s = .error .type ∨
    parse false skip s = .error .assertion := by
  rcases C06.parse_total false skip s with ⟨es, h⟩ | h
  · exact absurd h (lost_brace_strict_fails skip s ts ht hy hlost es)
  · exact h

/-- Tolerant parsing succeeds on every document without math, `\item`, verbatim-like
environments and name-less `\begin` – whatever closers it has lost. -/
theorem tolerant_succeeds (skip : List Str) (s : Str) (ts : List Tok)
    (ht : tokenize s = some ts) (hy : TolHyp (Tables.skipEnvNames ++ skip) ts) :
    ∃ es, parse true skip s = .ok es :=
  parse_tolerant_succeeds skip s ts ht hy

/-- The same for every tolerant reader function: it succeeds or runs out of fuel. -/
theorem reader_tolerant_ok (skip0 : List Str) (f : Nat) : TolOkAt skip0 f := tolOkAt skip0 f

/-- More `{` than `}`, in a document without math and `\item`: tolerant parsing succeeds. -/
theorem lost_brace_tolerant_succeeds (skip : List Str) (s : Str) (ts : List Tok)
    (ht : tokenize s = some ts) (hm : ∀ t ∈ ts, mkindOfBegin t.cat = none) (hi : NoItem ts)
    (hy : WellNamed (Tables.skipEnvNames ++ skip) ts) :
    ∃ es, parse true skip s = .ok es :=
  parse_tolerant_succeeds skip s ts ht (TolHyp.of_wellNamed hm hi hy)

/-! ## 3. A lost `\end{name}` -/

/-- More `\begin` than `\end`: strict parsing does not succeed. -/
theorem lost_end_strict_fails (skip : List Str) (s : Str) (ts : List Tok)
    (ht : tokenize s = some ts) (hy : EnvHyp (Tables.skipEnvNames ++ skip) ts)
    (hlost : envCloses ts < envOpens ts) : ∀ es, parse false skip s ≠ .ok es := by
  intro es h
  have := parse_env_balanced skip s ts es ht hy h
  omega

/-- … and what it reports is one of the three diagnostic errors. -/
theorem lost_end_strict_error (skip : List Str) (s : Str) (ts : List Tok)
    (ht : tokenize s = some ts) (hy : EnvHyp (Tables.skipEnvNames ++ skip) ts)
    (hlost : envCloses ts < envOpens ts) :
    parse false skip s = .error .eof ∨ parse false skip s = .error .type ∨
    parse false skip s = .error .assertion := by
  rcases C06.parse_total false skip s with ⟨es, h⟩ | h
  · exact absurd h (lost_end_strict_fails skip s ts ht hy hlost es)
  · exact h

/-- More `\begin` than `\end`, in a document without math and `\item`: tolerant parsing
succeeds. -/
theorem lost_end_tolerant_succeeds (skip : List Str) (s : Str) (ts : List Tok)
    (ht : tokenize s = some ts) (hm : ∀ t ∈ ts, mkindOfBegin t.cat = none) (hi : NoItem ts)
    (hy : EnvHyp (Tables.skipEnvNames ++ skip) ts) :
    ∃ es, parse true skip s = .ok es :=
  parse_tolerant_succeeds skip s ts ht (TolHyp.of_wellNamed hm hi hy.wellNamed)

/-- C07 (b) in one statement: a document (no math, no `\item`, `EnvHyp`) that has lost a `}` or
an `\end` fails strictly with a diagnostic error and parses tolerantly. -/
theorem lost_closer (skip : List Str) (s : Str) (ts : List Tok) (ht : tokenize s = some ts)
    (hm : ∀ t ∈ ts, mkindOfBegin t.cat = none) (hi : NoItem ts)
    (hy : EnvHyp (Tables.skipEnvNames ++ skip) ts)
    (hlost : closes ts < opens ts ∨ envCloses ts < envOpens ts) :
    (parse false skip s = .error .eof ∨ parse false skip s = .error .type ∨
      parse false skip s = .error .assertion) ∧ ∃ es, parse true skip s = .ok es := by
  refine ⟨?_, lost_end_tolerant_succeeds skip s ts ht hm hi hy⟩
  rcases hlost with h | h
  · exact lost_brace_strict_error skip s ts ht hy.wellNamed h
  · exact lost_end_strict_error skip s ts ht hy h

/-! ## 4. The name-token part of the conditions is a tokenizer fact -/

/-- In the token list of a string without ignored characters the token after an escape is a
`CommandName`/`PunctuationCommandName` token – never `{` or another escape. So of `WellNamed`
only the `\begin{name}` part (`BeginNamed`) is a condition on the document. -/
theorem name_tokens (s : Str) (ts : List Tok) (hs : ∀ c ∈ s, isIgnored (catOf c) = false)
    (ht : tokenize s = some ts) :
    EscAfter (fun n _ => n.cat ≠ TC.GroupBegin ∧ n.cat ≠ TC.Escape) ts := by
  intro pre esc n r he hc
  rcases after_escape hs ht pre esc (n :: r) he hc with h0 | ⟨u, post', hu, hcat, _, _⟩
  · cases h0
  · simp only [List.cons.injEq] at hu
    obtain ⟨rfl, _⟩ := hu
    rcases hcat with h | h <;> rw [h] <;> exact ⟨by decide, by decide⟩

/-- `WellNamed` for tokenizer output. -/
theorem wellNamed_of_tokens (skip0 : List Str) (s : Str) (ts : List Tok)
    (hs : ∀ c ∈ s, isIgnored (catOf c) = false) (ht : tokenize s = some ts)
    (hb : BeginNamed skip0 ts) : WellNamed skip0 ts :=
  WellNamed.of_parts (name_tokens s ts hs ht) hb

/-! ## 5. Non-vacuity: evaluated examples -/
section
/-- `{a` -/
def ex1 : Str := [123, 97]
/-- `\x{a` -/
def ex2 : Str := [92, 120, 123, 97]
/-- `\begin{a}{b\end{a}` – the `}` of `{b` is lost -/
def ex3 : Str := [92, 98, 101, 103, 105, 110, 123, 97, 125, 123, 98, 92, 101, 110, 100, 123, 97, 125]
/-- `\begin{a}b` – the `\end{a}` is lost -/
def ex4 : Str := [92, 98, 101, 103, 105, 110, 123, 97, 125, 98]

example : parse false [] ex1 = .error .type := by rfl
example : parse true [] ex1 = .ok [.group .brace [.text [97] 1] 0] := by rfl
example : parse false [] ex2 = .error .type := by rfl
example : parse true [] ex2 = .ok [.cmd [120] [.group .brace [.text [97] 3] 2] [] 0] := by rfl
example : parse false [] ex3 = .error .type := isErrB_sound (by decide +kernel)
example : ∃ es, parse true [] ex3 = .ok es := isOkB_sound (by decide +kernel)
example : parse false [] ex4 = .error .eof := by rfl
example : parse true [] ex4 = .ok [.nenv [97] [] [.text [98] 9] 0] := by rfl

/-- The hypotheses of `lost_closer` hold for `ex3` (lost `}`: 3 openers, 2 closers). -/
example : ∃ ts, tokenize ex3 = some ts ∧ (∀ t ∈ ts, mkindOfBegin t.cat = none) ∧ NoItem ts ∧
    EnvHyp (Tables.skipEnvNames ++ []) ts ∧ closes ts < opens ts := by
  refine ⟨_, by rfl, ?_, ?_, envHypB_sound (by rfl), by decide⟩
  · exact (tolHypB_sound (skip0 := Tables.skipEnvNames ++ []) (by rfl)).math
  · exact (tolHypB_sound (skip0 := Tables.skipEnvNames ++ []) (by rfl)).noItem

/-- The hypotheses of `lost_closer` hold for `ex4` (lost `\end`: 1 `\begin`, 0 `\end`). -/
example : ∃ ts, tokenize ex4 = some ts ∧ (∀ t ∈ ts, mkindOfBegin t.cat = none) ∧ NoItem ts ∧
    EnvHyp (Tables.skipEnvNames ++ []) ts ∧ envCloses ts < envOpens ts := by
  refine ⟨_, by rfl, ?_, ?_, envHypB_sound (by rfl), by decide⟩
  · exact (tolHypB_sound (skip0 := Tables.skipEnvNames ++ []) (by rfl)).math
  · exact (tolHypB_sound (skip0 := Tables.skipEnvNames ++ []) (by rfl)).noItem

/-- The conditions cannot be dropped: inside a verbatim environment an unmatched `{` is fine
(`\begin{verbatim}x{\end{verbatim}` parses strictly) … -/
example : ∃ es, parse false [] [92, 98, 101, 103, 105, 110, 123, 118, 101, 114, 98, 97, 116, 105, 109,
    125, 120, 123, 92, 101, 110, 100, 123, 118, 101, 114, 98, 97, 116, 105, 109, 125] = .ok es :=
  isOkB_sound (by decide +kernel)
/-- … and in special mode `\begin` is a plain command (`\newcommand{\x}{\begin{a}}` parses
strictly). -/
example : ∃ es, parse false [] [92, 110, 101, 119, 99, 111, 109, 109, 97, 110, 100, 123, 92, 120, 125,
    123, 92, 98, 101, 103, 105, 110, 123, 97, 125, 125] = .ok es :=
  isOkB_sound (by decide +kernel)
end

end TexSoup.C07b
