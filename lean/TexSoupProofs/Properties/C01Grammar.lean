import TexSoupProofs.Properties.C16Grammar
/-!
# C01 for documents of the grammar, in the words of the property

"For every well-formed LaTeX document in which each argument group immediately follows its
command or the previous argument, parsing succeeds and converting the tree back to text yields
the source exactly, character for character."

 * well-formed: `WFD` (the grammar of documented constructs, `TexSoupModel/Grammar.lean`);
 * its tokens are what the tokenizer makes of its text: `Separated` / `Positioned` (equivalently
   `tokenize (flat (toksD d)) = some (toksD d)`, `tokenize_iff`);
 * "each argument group immediately follows": no optional spacer token is written in front of an
   argument group or of the `{name}` of `\begin`/`\end` – `squeezeD d = d`;
 * environment names are written without surrounding blanks (`envNamesPlainS`; the recorded
   finding F4b: `\begin{ a }` is read as environment `a` and printed `\begin{a}`).

No further side condition (no hypothesis about NUL/DEL, made-up arguments or the token stream)
remains: they follow from well-formedness. Both tolerance modes.
-/
namespace TexSoup.C01G
open TexSoup TexSoup.Gram

/-- lossless round trip of well-formed documents with adjacent argument groups -/
theorem document_roundtrip (tol : Bool) (skip : List Str) (d : Doc)
    (hwf : WFD (Tables.skipEnvNames ++ skip) d = true) (hen : envNamesPlainS d = true)
    (hadj : squeezeD d = d) (hsep : Separated none (toksD d)) (hpos : Positioned 0 (toksD d)) :
    parse tol skip (flat (toksD d)) = .ok (treeD d) ∧ serL (treeD d) = flat (toksD d) := by
  have hs := serL_treeD d (canonD_of_separated hwf hsep hen)
  rw [hadj] at hs
  exact ⟨C02.document_parses tol skip d hwf hsep hpos, hs⟩

/-- … stated on the source string: if the string is the text of such a document, parsing it and
printing the tree gives the string back. -/
theorem source_roundtrip (tol : Bool) (skip : List Str) (s : Str) (d : Doc) (hs : s = flat (toksD d))
    (hwf : WFD (Tables.skipEnvNames ++ skip) d = true) (hen : envNamesPlainS d = true)
    (hadj : squeezeD d = d) (hsep : Separated none (toksD d)) (hpos : Positioned 0 (toksD d)) :
    ∃ es, parse tol skip s = .ok es ∧ serL es = s := by
  subst hs
  exact ⟨treeD d, document_roundtrip tol skip d hwf hen hadj hsep hpos⟩

/-- When spacers ARE written in front of argument groups the output is the source minus exactly
those spacers (the permitted difference of C08, and why C01 asks for adjacency). -/
theorem document_roundtrip_spaced (tol : Bool) (skip : List Str) (d : Doc)
    (hwf : WFD (Tables.skipEnvNames ++ skip) d = true) (hen : envNamesPlainS d = true)
    (hsep : Separated none (toksD d)) (hpos : Positioned 0 (toksD d)) :
    parse tol skip (flat (toksD d)) = .ok (treeD d) ∧ serL (treeD d) = flat (toksD (squeezeD d)) :=
  ⟨C02.document_parses tol skip d hwf hsep hpos, serL_treeD d (canonD_of_separated hwf hsep hen)⟩

/-! ## Non-vacuity: `\foo[a]{b}x` (adjacent) and the spaced `\foo [a] {b}x` of C16G -/

private def t (s : Str) (p : Nat) (c : TC) : Tok := ⟨s, p, c⟩

def exAdjacent : Doc :=
  [.cmd (t [92] 0 .Escape) (t [102, 111, 111] 1 .CommandName)
     [.mk none (t [91] 4 .BracketBegin) [.leaf (t [97] 5 .Text)] (t [93] 6 .BracketEnd)]
     [.mk none (t [123] 7 .GroupBegin) [.leaf (t [98] 8 .Text)] (t [125] 9 .GroupEnd)]
     [] [],
   .leaf (t [120] 10 .Text)]

example : flat (toksD exAdjacent) = [92, 102, 111, 111, 91, 97, 93, 123, 98, 125, 120] := by decide

example : parse false [] [92, 102, 111, 111, 91, 97, 93, 123, 98, 125, 120] = .ok (treeD exAdjacent) ∧
    serL (treeD exAdjacent) = [92, 102, 111, 111, 91, 97, 93, 123, 98, 125, 120] :=
  document_roundtrip false [] exAdjacent (by decide) (by decide) rfl (by decide +kernel) (by decide)

/-- the adjacency hypothesis cannot be dropped: the spaced document of C16G prints without its blanks -/
example : squeezeD C16G.exSpaced ≠ C16G.exSpaced ∧
    serL (treeD C16G.exSpaced) ≠ flat (toksD C16G.exSpaced) :=
  ⟨fun h => absurd (congrArg (fun d => flat (toksD d)) h) (by decide), by decide⟩

end TexSoup.C01G
