import TexSoupProofs.EditLemmasMain
import TexSoupProofs.EditLemmasLegacy
import TexSoupModel.ArgsEdit
/-!
# C05 – structural edits are local splices of the serialised document

"Deleting a node, replacing it with new nodes or text, removing a child, or
inserting/appending content changes exactly the targeted place of the serialised document:
the result equals the original text with that node's own span removed or substituted, or
with the new text spliced in at the requested index, and every other character unchanged.
This holds for nodes in bodies, items, groups and arguments, and also when the document
contains other nodes whose text is identical to the target's."

Vocabulary (definitions in `TexSoupProofs/EditLemmas*.lean`):
* `offAtRoot es p : Option Nat` – number of characters of `serL es` before the node at `p`
  (`offAt e p` inside a node, `insOff c i` / `insOffRoot es c i` for insertion point `i` of a
  container: after its opening part, its arguments and its first `i` body elements);
* `parentOK es p` – the list holding the node at `p` belongs to something that supports
  contents (`TexExpr.remove`/`insert` raise `TypeError` otherwise: a command that is not
  `\item`, e.g. a renamed `\item`, cannot lose or replace a child);
* `siteOf es op = some ⟨q, st, d, ns⟩` – the edit replaces `d` elements at place `st` of the
  node at `q` by `ns`; `untouched`/`reindex` name the paths that survive and where they go.

All statements quantify over *paths*, i.e. over occurrences: a textual twin of the target is
a different path and is covered by `edit_preserves_others`.
-/
namespace TexSoup.C05
open TexSoup TexSoup.Edit

/-- `node.delete()` / `parent.remove(node)`: the serialised document loses exactly the span
of the node at `p` (offset `k`, length `(ser x).length`); nothing else changes. -/
theorem delete_splice (es : List Expr) (p : Path) (x : Expr)
    (hx : getAtRoot es p = some x) (hok : parentOK es p = true) :
    ∃ k, offAtRoot es p = some k ∧
      serL (applyEdit es (.delete p)) = (serL es).take k ++ (serL es).drop (k + (ser x).length) := by
  obtain ⟨k, hk, h⟩ := remove_core (op := .delete p) [] hx hok
    (fun q st hp => by subst hp; exact siteOf_delete hx hok)
  exact ⟨k, hk, by simpa using h⟩

example : ∃ es p x, getAtRoot es p = some x ∧ parentOK es p = true :=
  ⟨Legacy.twins, [.body 2], _, rfl, by decide⟩

/-- `node.replace_with(*ns)` / `parent.replace(node, *ns)`: the span of the node at `p` is
substituted by the text of the new material; nothing else changes. -/
theorem replace_splice (es : List Expr) (p : Path) (x : Expr) (ns : List Expr)
    (hx : getAtRoot es p = some x) (hok : parentOK es p = true) :
    ∃ k, offAtRoot es p = some k ∧
      serL (applyEdit es (.replace p ns)) =
        (serL es).take k ++ (serL ns ++ (serL es).drop (k + (ser x).length)) :=
  remove_core (op := .replace p ns) ns hx hok
    (fun q st hp => by subst hp; exact siteOf_replace ns hx hok)

example : ∃ es p x, getAtRoot es p = some x ∧ parentOK es p = true :=
  ⟨Legacy.twins, [.body 0], _, rfl, by decide⟩

/-- If the target does not exist, or its holder refuses edits (Python raises), `delete` and
`replace` leave the document as it is. -/
theorem remove_fails (es : List Expr) (p : Path) (ns : List Expr)
    (h : getAtRoot es p = none ∨ parentOK es p = false) :
    applyEdit es (.delete p) = es ∧ applyEdit es (.replace p ns) = es := by
  have hs : siteOf es (.delete p) = none ∧ siteOf es (.replace p ns) = none := by
    simp only [siteOf]
    cases hsl : splitLast p with
    | none => exact ⟨rfl, rfl⟩
    | some qs => rcases h with h | h <;> simp [h]
  exact ⟨siteOf_none hs.1 (by intros; simp) (by intros; simp),
    siteOf_none hs.2 (by intros; simp) (by intros; simp)⟩

example : ∃ es p, getAtRoot es p = none ∨ parentOK es p = false :=
  ⟨Legacy.twins, [.body 7], Or.inl rfl⟩

/-- `container.insert(i, *ns)` with `i ≤ len(contents)`: the text of the new material is
spliced in at the insertion point `i` of the container at `c` (the root for `c = []`);
nothing is removed. -/
theorem insert_splice (es : List Expr) (c : Path) (y : Expr) (i : Nat) (ns : List Expr)
    (hc : getAtRoot es c = some y) (hsc : y.supportsContents = true) (hi : i ≤ y.body.length) :
    ∃ k, insOffRoot es c i = some k ∧
      serL (applyEdit es (.insert c i ns)) = (serL es).take k ++ (serL ns ++ (serL es).drop k) := by
  apply insert_core i ns hc hsc
  rw [siteOf_insert i ns hc hsc, Nat.min_eq_left hi]

example : ∃ es c y i, getAtRoot es c = some y ∧ y.supportsContents = true ∧ i ≤ y.body.length :=
  ⟨Legacy.twins, [], _, 3, rfl, rfl, by decide⟩

/-- An index beyond the end behaves like the end (`list.insert` clamps): the same result as
`append`. -/
theorem insert_beyond (es : List Expr) (c : Path) (y : Expr) (i : Nat) (ns : List Expr)
    (hc : getAtRoot es c = some y) (hi : y.body.length ≤ i) :
    applyEdit es (.insert c i ns) = applyEdit es (.append c ns) := by
  have : applyEditE (rootWrap es) (.insert c i ns) = applyEditE (rootWrap es) (.append c ns) := by
    simp only [applyEditE]
    apply updAt_congr hc
    have : insertAt i ns y.body = y.body ++ ns := by
      rw [insertAt_min, Nat.min_eq_right hi, insertAt]; simp
    rw [this]
  simp [applyEdit, this]

example : ∃ es c y i, getAtRoot es c = some y ∧ y.body.length ≤ i :=
  ⟨Legacy.twins, [], _, 9, rfl, by decide⟩

/-- `container.insert(i, *ns)` for ANY integer index, Python's convention: the index is
resolved once like `list.insert` does (`pyInsertIndex`: a negative `i` counts from the end,
everything is clamped into `0..len`), and the text of all new pieces is spliced in, in order,
at the insertion point of that resolved index (`l[i:i] = pieces`); nothing is removed. -/
theorem insert_splice_py (es : List Expr) (c : Path) (y : Expr) (i : Int) (ns : List Expr)
    (hc : getAtRoot es c = some y) (hsc : y.supportsContents = true) :
    insertEdit es c i ns = some (.insert c (pyInsertIndex y.body.length i) ns) ∧
    pyInsertIndex y.body.length i ≤ y.body.length ∧
    ∃ k, insOffRoot es c (pyInsertIndex y.body.length i) = some k ∧
      serL (applyEdit es (.insert c (pyInsertIndex y.body.length i) ns)) =
        (serL es).take k ++ (serL ns ++ (serL es).drop k) := by
  have hle : pyInsertIndex y.body.length i ≤ y.body.length := by
    unfold pyInsertIndex pyClampInsert
    split <;> omega
  exact ⟨by simp [insertEdit, hc], hle, insert_splice es c y _ ns hc hsc hle⟩

example : pyInsertIndex 2 (-1) = 1 ∧ pyInsertIndex 2 (-99) = 0 ∧ pyInsertIndex 2 99 = 2 ∧
    serL (applyEdit Legacy.twins (.insert [] (pyInsertIndex 4 (-1)) [.text [112] (-1), .text [113] (-1)]))
      = [92, 120, 32, 121, 92, 120, 112, 113, 32, 122] := by decide

/-- `container.append(*ns)`: the new text is spliced in after the last element of the
container's contents (before its closing part). -/
theorem append_splice (es : List Expr) (c : Path) (y : Expr) (ns : List Expr)
    (hc : getAtRoot es c = some y) (hsc : y.supportsContents = true) :
    ∃ k, insOffRoot es c y.body.length = some k ∧
      serL (applyEdit es (.append c ns)) = (serL es).take k ++ (serL ns ++ (serL es).drop k) :=
  insert_core y.body.length ns hc hsc (siteOf_append ns hc hsc)

example : ∃ es c y, getAtRoot es c = some y ∧ y.supportsContents = true :=
  ⟨Legacy.twins, [], _, rfl, rfl⟩

/-- A container that does not exist or does not support contents (a command other than
`\item`, a text leaf): `insert`/`append` raise and the document stays as it is. -/
theorem insert_fails (es : List Expr) (c : Path) (i : Nat) (ns : List Expr)
    (h : containerOK es c = false) :
    applyEdit es (.insert c i ns) = es ∧ applyEdit es (.append c ns) = es := by
  have hs : siteOf es (.insert c i ns) = none ∧ siteOf es (.append c ns) = none := by
    simp only [siteOf, containerOK] at h ⊢
    cases hc : getAtRoot es c with
    | none => exact ⟨rfl, rfl⟩
    | some y => simp [hc] at h; simp [h]
  exact ⟨siteOf_none hs.1 (by intros; simp) (by intros; simp),
    siteOf_none hs.2 (by intros; simp) (by intros; simp)⟩

example : ∃ es c, containerOK es c = false := ⟨Legacy.twins, [.body 0], by decide⟩

/-- The site of each structural edit, spelled out (this is what `edit_preserves_others`
refers to): the parent and the place of the target for `delete`/`replace` (one element
removed), the container and the (clamped) index for `insert`/`append` (nothing removed). -/
theorem sites (es : List Expr) (q : Path) (st : Step) (x y : Expr) (c : Path) (i : Nat)
    (ns : List Expr)
    (hx : getAtRoot es (q ++ [st]) = some x) (hok : parentOK es (q ++ [st]) = true)
    (hc : getAtRoot es c = some y) (hsc : y.supportsContents = true) :
    siteOf es (.delete (q ++ [st])) = some ⟨q, st, 1, []⟩ ∧
    siteOf es (.replace (q ++ [st]) ns) = some ⟨q, st, 1, ns⟩ ∧
    siteOf es (.insert c i ns) = some ⟨c, .body (min i y.body.length), 0, ns⟩ ∧
    siteOf es (.append c ns) = some ⟨c, .body y.body.length, 0, ns⟩ :=
  ⟨siteOf_delete hx hok, siteOf_replace ns hx hok, siteOf_insert i ns hc hsc,
    siteOf_append ns hc hsc⟩

example : ∃ es q st x, getAtRoot es (q ++ [st]) = some x ∧ parentOK es (q ++ [st]) = true :=
  ⟨Legacy.twins, [], .body 2, _, rfl, by decide⟩

/-- Nodes that are not targeted are never altered, duplicated or lost: every path `r` that is
neither the edited node's parent chain nor inside a removed element (`untouched`) still
leads to the same node, after the explicit re-indexing `reindex` (siblings behind the edit
point in the same holder move by `inserted − removed`; every other path stays). In
particular a textual twin of the target, being at another path, is untouched. -/
theorem edit_preserves_others (es : List Expr) (op : EditOp) (σ : Site) (r : Path)
    (h : siteOf es op = some σ) (hr : untouched σ.q σ.st σ.d r = true) :
    getAtRoot (applyEdit es op) (reindex σ.q σ.st σ.d σ.ns.length r) = getAtRoot es r :=
  site_paths h hr

example : ∃ es op σ r, siteOf es op = some σ ∧ untouched σ.q σ.st σ.d r = true :=
  ⟨Legacy.twins, .delete [.body 2], ⟨[], .body 2, 1, []⟩, [.body 3], rfl, by decide⟩

/-- Inserted material is found, as given, at the edit point. -/
theorem edit_new_material (es : List Expr) (op : EditOp) (σ : Site) (m : Nat)
    (h : siteOf es op = some σ) (hm : m < σ.ns.length) :
    getAtRoot (applyEdit es op) (σ.q ++ [σ.st.withIdx (σ.st.idx + m)]) = σ.ns[m]? :=
  site_new h m hm

example : ∃ es op σ m, siteOf es op = some σ ∧ m < σ.ns.length :=
  ⟨Legacy.twins, .insert [] 1 [.text [115] (-1)], ⟨[], .body 1, 0, [.text [115] (-1)]⟩, 0,
    rfl, by decide⟩

/-- Twins: in `\x y\x z` deleting the *second* `\x` removes characters 4–5 and nothing else,
and the first `\x` (same text, other path) is still there. -/
theorem twins_example :
    serL Legacy.twins = [92, 120, 32, 121, 92, 120, 32, 122] ∧
    offAtRoot Legacy.twins [.body 2] = some 4 ∧
    serL (applyEdit Legacy.twins (.delete [.body 2])) = [92, 120, 32, 121, 32, 122] ∧
    getAtRoot (applyEdit Legacy.twins (.delete [.body 2])) [.body 0] = getAtRoot Legacy.twins [.body 0] ∧
    getAtRoot (applyEdit Legacy.twins (.delete [.body 2])) [.body 2] = getAtRoot Legacy.twins [.body 3] := by
  refine ⟨by decide, by decide, by decide, rfl, rfl⟩

example : getAtRoot Legacy.twins [.body 2] = some (.cmd [120] [] [] 4) := rfl

namespace Legacy
open TexSoup.Edit.Legacy

/-- The lookup before the repair (first element of the holder whose *text* equals the
target's) was not local: deleting the second `\x` of `\x y\x z` removed the first one. -/
theorem delete_not_local : ∃ (es : List Expr) (p : Path) (x : Expr) (k : Nat),
    getAtRoot es p = some x ∧ parentOK es p = true ∧ offAtRoot es p = some k ∧
    serL (applyDelete es p) ≠ (serL es).take k ++ (serL es).drop (k + (ser x).length) :=
  ⟨twins, [.body 2], .cmd [120] [] [] 4, 4, rfl, by decide, by decide, by decide⟩

example : serL (applyDelete twins [.body 2]) = [32, 121, 92, 120, 32, 122] := by decide

end Legacy
end TexSoup.C05
