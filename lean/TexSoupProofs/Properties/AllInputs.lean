import TexSoupProofs.Properties.C02Sound
import TexSoupProofs.Properties.C14Grammar
import TexSoupProofs.Properties.C10Grammar
import TexSoupProofs.Properties.C11Grammar
/-!
# The grammar corollaries for ALL strictly parsing representable inputs

The theorems `C14G.*`, `C10G.*`, … are stated for well-formed documents of the grammar. By
`C02.parse_sound` (the grammar is exhaustive) every source text that parses strictly to a
representable tree *is* such a document, so the same statements hold for every such input –
stated here on the source text `s` and its parse `es`, without any grammar document in the
hypotheses.

`StrictInput skip s es` collects what is assumed of the input (all of it is the hypothesis list
of `C02.parse_sound` plus "environment names are written plainly after `\begin`", finding F4b):

 * no NUL/DEL in `s`; `parse false skip s = .ok es`; user skip names are plain names;
 * on the tokens: the argument after `\begin`/`\end` is `{`, one text token, `}`
   (`EnvNamesSimple`), no backslash at the very end, `{name` after `\begin` is its own `strip()`;
 * on the tree: `Gram.repL .nonMath es` (no made-up arguments, fixed signatures respected).

`strictInput_of_checks`: the token conditions from three Boolean checks.
-/
namespace TexSoup.AllInputs
open TexSoup TexSoup.Gram

/-- A source text that parses strictly to a representable tree. -/
structure StrictInput (skip : List Str) (s : Str) (es : List Expr) : Prop where
  chars : ∀ c ∈ s, isIgnored (catOf c) = false
  parses : parse false skip s = .ok es
  skipPlain : ∀ n, memStr n skip = true → PlainEnvName n
  tokens : ∀ ts, tokenize s = some ts → EnvNamesSimple ts ∧ NoTrailingEscape ts ∧ BeginPlain ts
  rep : repL .nonMath es = true

/-- **The input is a document of the grammar**: well-formed, with the source as its text, the
parse as its tree, a tokenizer output as its tokens, environment names written plainly. -/
theorem StrictInput.doc {skip : List Str} {s : Str} {es : List Expr} (h : StrictInput skip s es) :
    ∃ d : Doc, tokenize s = some (toksD d) ∧ flat (toksD d) = s ∧
      WFD (Tables.skipEnvNames ++ skip) d = true ∧ treeD d = es ∧ envNamesPlainS d = true ∧
      Separated none (toksD d) := by
  obtain ⟨d, ht, hfl, hwf, htr⟩ := C02.parse_sound skip s es h.chars h.parses h.skipPlain
    (fun ts hts => ⟨(h.tokens ts hts).1, (h.tokens ts hts).2.1⟩) h.rep
  exact ⟨d, ht, hfl, hwf, htr, envPlainS_of_tokens d _ _ _ _ hwf (h.tokens _ ht).2.2,
    (tokenize_separated h.chars ht).1⟩

/-! ### a Boolean check for `BeginPlain` -/

/-- after every `\begin`, optional spacers and `{`, the next token is its own `strip()` -/
def beginPlainB : List Tok → Bool
  | [] => true
  | esc :: r =>
    (match r with
     | bg :: r' =>
        if esc.cat == .Escape && bg.text == sBegin then
          (match r'.dropWhile (fun x => x.cat == .MergedSpacer) with
           | o :: nt :: _ => o.cat != .GroupBegin || strip nt.text == nt.text
           | _ => true)
        else true
     | [] => true) && beginPlainB r

theorem dropWhile_spacers (sp : List Tok) (o : Tok) (r : List Tok) (hsp : ∀ x ∈ sp, x.cat = .MergedSpacer)
    (ho : o.cat = .GroupBegin) :
    (sp ++ o :: r).dropWhile (fun x => x.cat == TC.MergedSpacer) = o :: r := by
  induction sp with
  | nil => simp [ho]
  | cons x xs ih =>
    simp only [List.cons_append, List.dropWhile]
    rw [hsp x List.mem_cons_self]
    simp only [beq_self_eq_true]
    exact ih (fun y hy => hsp y (List.mem_cons_of_mem _ hy))

theorem beginPlain_of_check : ∀ ts : List Tok, beginPlainB ts = true → BeginPlain ts := by
  intro ts
  induction ts with
  | nil =>
    intro _ pre esc bg sp o nt r he
    cases pre <;> simp at he
  | cons t ts ih =>
    intro h pre esc bg sp o nt r he hesc hbg hsp ho
    simp only [beginPlainB, Bool.and_eq_true] at h
    cases pre with
    | cons p pre' =>
      simp only [List.cons_append, List.cons.injEq] at he
      exact ih h.2 pre' esc bg sp o nt r he.2 hesc hbg hsp ho
    | nil =>
      simp only [List.nil_append, List.cons.injEq] at he
      obtain ⟨rfl, rfl⟩ := he
      have h1 := h.1
      simp only [hesc, hbg, beq_self_eq_true] at h1
      rw [dropWhile_spacers sp o (nt :: r) hsp ho] at h1
      simpa [ho] using h1

/-- `StrictInput` from evaluable checks of the tokens. -/
theorem strictInput_of_checks (skip : List Str) (s : Str) (es : List Expr)
    (hs : ∀ c ∈ s, isIgnored (catOf c) = false) (h : parse false skip s = .ok es)
    (hskip : ∀ n, memStr n skip = true → PlainEnvName n)
    (hchk : ∀ ts, tokenize s = some ts →
      envNamesShapeB ts = true ∧ C02.noTrailingEscapeB ts = true ∧ beginPlainB ts = true)
    (hrep : repL .nonMath es = true) : StrictInput skip s es :=
  ⟨hs, h, hskip, fun ts hts => ⟨envNamesSimple_of_shape (hchk ts hts).1,
    C02.noTrailingEscape_of_check (hchk ts hts).2.1, beginPlain_of_check ts (hchk ts hts).2.2⟩, hrep⟩

end TexSoup.AllInputs

/-! ## C14 – re-parsing the text of an edited tree -/
namespace TexSoup.C14
open TexSoup TexSoup.Gram TexSoup.AllInputs TexSoup.C14G

/-- **`node.name = new` on a command, for every strictly parsing input.** `es` is the strict
parse of `s`; `p` is the path of a command `\old` in it, the only one of that name at that
position; `old`, `new` are command names with the same role, `new` is no sizing prefix, no
command name of the source is a bare sizing prefix. Then `str` of the edited tree parses, in
both tolerance modes, to a tree of the same shape and text. -/
theorem rename_command_reparse_all (tol : Bool) (skip : List Str) (s : Str) (es : List Expr)
    (hin : StrictInput skip s es)
    (hsz : ∀ ts, tokenize s = some ts → C16G.noBareSizing ts = true)
    (p : Path) (old new : Str) (a b : List Expr) (pos : Int) (hp : p ≠ [])
    (hget : getAtRoot es p = some (.cmd old a b pos))
    (huniq : selCountL (qAt old pos) qNone es = 1)
    (hrole : sameRole old new = true) (hgold : goodName old = true) (hgnew : goodName new = true)
    (hnsz : new ∉ Tables.sizePrefix) :
    ∃ t2, parse tol skip (serL (applyEdit es (.rename p new))) = .ok t2 ∧
      shapeL t2 = shapeL (applyEdit es (.rename p new)) ∧
      serL t2 = serL (applyEdit es (.rename p new)) := by
  obtain ⟨d, ht, -, hwf, rfl, hen, hsep⟩ := hin.doc
  exact rename_command_reparse_of_source tol skip d p old new a b pos hwf hen hsep (hsz _ ht) hp hget
    huniq hrole hgold hgnew hnsz

/-- **`node.name = new` on an environment, for every strictly parsing input.** -/
theorem rename_environment_reparse_all (tol : Bool) (skip : List Str) (s : Str) (es : List Expr)
    (hin : StrictInput skip s es)
    (hsz : ∀ ts, tokenize s = some ts → C16G.noBareSizing ts = true)
    (p : Path) (old new : Str) (a b : List Expr) (pos : Int) (hp : p ≠ [])
    (hget : getAtRoot es p = some (.nenv old a b pos)) (hpos : pos ≠ -1)
    (huniq : selCountL qNone (qAt old pos) es = 1)
    (hrole : envRole old new = true)
    (hold : memStr old (Tables.skipEnvNames ++ skip) = false)
    (hnews : memStr new (Tables.skipEnvNames ++ skip) = false)
    (hlold : letterStart old = true) (hgnew : goodText new = true) :
    ∃ t2, parse tol skip (serL (applyEdit es (.rename p new))) = .ok t2 ∧
      shapeL t2 = shapeL (applyEdit es (.rename p new)) ∧
      serL t2 = serL (applyEdit es (.rename p new)) := by
  obtain ⟨d, ht, -, hwf, rfl, hen, hsep⟩ := hin.doc
  exact rename_environment_reparse_of_source tol skip d p old new a b pos hwf hen hsep (hsz _ ht) hp hget
    hpos huniq hrole hold hnews hlold hgnew

/-- **`node.string = x` on a command with one argument, for every strictly parsing input**
(trees compared without positions: the new string has none). -/
theorem set_string_command_reparse_all (tol : Bool) (skip : List Str) (s : Str) (es : List Expr)
    (hin : StrictInput skip s es)
    (hsz : ∀ ts, tokenize s = some ts → C16G.noBareSizing ts = true)
    (p : Path) (old : Str) (a : Expr) (b : List Expr) (pos : Int) (x : Str) (hp : p ≠ [])
    (hget : getAtRoot es p = some (.cmd old [a] b pos)) (hold : (old == sItem) = false)
    (huniq : cntSelL (strSel (qAt old pos) qNone) es = 1) (hx : goodText x = true) :
    ∃ t2, parse tol skip (serL (applyEdit es (.setString p x))) = .ok t2 ∧
      bareL t2 = bareL (applyEdit es (.setString p x)) ∧
      serL t2 = serL (applyEdit es (.setString p x)) := by
  obtain ⟨d, ht, -, hwf, rfl, hen, hsep⟩ := hin.doc
  exact set_string_command_reparse_of_source tol skip d p old a b pos x hwf hen hsep (hsz _ ht) hp hget
    hold huniq hx

/-- **`node.string = x` on an argument-less environment with a one-text body.** -/
theorem set_string_environment_reparse_all (tol : Bool) (skip : List Str) (s : Str) (es : List Expr)
    (hin : StrictInput skip s es)
    (hsz : ∀ ts, tokenize s = some ts → C16G.noBareSizing ts = true)
    (p : Path) (old u : Str) (pu pos : Int) (x : Str) (hp : p ≠ [])
    (hget : getAtRoot es p = some (.nenv old [] [.text u pu] pos)) (hu : isBlank u = false)
    (hpos : pos ≠ -1) (hold : memStr old (Tables.skipEnvNames ++ skip) = false)
    (huniq : cntSelL (strSel qNone (qAt old pos)) es = 1) (hx : goodText x = true) :
    ∃ t2, parse tol skip (serL (applyEdit es (.setString p x))) = .ok t2 ∧
      bareL t2 = bareL (applyEdit es (.setString p x)) ∧
      serL t2 = serL (applyEdit es (.setString p x)) := by
  obtain ⟨d, ht, -, hwf, rfl, hen, hsep⟩ := hin.doc
  exact set_string_environment_reparse_of_source tol skip d p old u pu pos x hwf hen hsep (hsz _ ht) hp
    hget hu hpos hold huniq hx

end TexSoup.C14

/-! ## C10 – the payload of a comment does not matter -/
namespace TexSoup.C10
open TexSoup TexSoup.Gram TexSoup.AllInputs TexSoup.C10G

mutual
/-- No verbatim-like environment (name in `sk`) has a body that starts with a comment character
(there `%` is no comment: the whole body is one text node). -/
def verbTreeOK (sk : List Str) : Expr → Bool
  | .text _ _ => true
  | .cmd _ a b _ => verbTreeOKL sk a && verbTreeOKL sk b
  | .nenv n a b _ =>
      verbTreeOKL sk a && verbTreeOKL sk b &&
      !(memStr n sk && (match b with
                        | [.text u _] => isCommentText u
                        | _ => false))
  | .math _ b _ => verbTreeOKL sk b
  | .group _ b _ => verbTreeOKL sk b
def verbTreeOKL (sk : List Str) : List Expr → Bool
  | [] => true
  | e :: es => verbTreeOK sk e && verbTreeOKL sk es
end

@[simp] theorem verbTreeOKL_nil (sk : List Str) : verbTreeOKL sk [] = true := by simp [verbTreeOKL]
@[simp] theorem verbTreeOKL_cons (sk : List Str) (e : Expr) (es : List Expr) :
    verbTreeOKL sk (e :: es) = (verbTreeOK sk e && verbTreeOKL sk es) := by simp [verbTreeOKL]
theorem verbTreeOKL_append (sk : List Str) (a b : List Expr) :
    verbTreeOKL sk (a ++ b) = (verbTreeOKL sk a && verbTreeOKL sk b) := by
  induction a with
  | nil => simp
  | cons e es ih => simp [ih, Bool.and_assoc]

mutual
theorem verbOK_of_tree (sk : List Str) : ∀ (e : Elem) (skip : List Str) (m : Mode) (nx : List Tok),
    SkipSub skip sk → WF skip m nx e = true → verbTreeOK sk (tree e) = true → verbOK e = true
  | .leaf t, _, _, _, _, _, _ => by simp [verbOK]
  | .group o b c, skip, m, nx, hs, h, ht => by
      simp only [WF, Bool.and_eq_true] at h
      simp only [tree, verbTreeOK] at ht
      simp only [verbOK]
      exact verbOKS_of_tree sk b _ _ _ _ (skipSub_nil sk) h.2 ht
  | .math k o b c, skip, m, nx, hs, h, ht => by
      simp only [WF, Bool.and_eq_true] at h
      simp only [tree, verbTreeOK] at ht
      simp only [verbOK]
      exact verbOKS_of_tree sk b _ _ _ _ (skipSub_nil sk) h.2 ht
  | .cmd e n a1 a2 a3 a4, skip, m, nx, hs, h, ht => by
      simp only [WF, Bool.and_eq_true] at h
      obtain ⟨⟨⟨⟨⟨_, w1⟩, w2⟩, w3⟩, w4⟩, _⟩ := h
      simp only [tree, verbTreeOK, verbTreeOKL_append, verbTreeOKL_nil, Bool.and_eq_true, and_true] at ht
      simp only [verbOK, Bool.and_eq_true]
      exact ⟨⟨⟨verbOKA_of_tree sk a1 _ _ w1 ht.1, verbOKA_of_tree sk a2 _ _ w2 ht.2.1⟩,
        verbOKA_of_tree sk a3 _ _ w3 ht.2.2.1⟩, verbOKA_of_tree sk a4 _ _ w4 ht.2.2.2⟩
  | .item e n a1 a2 a3 a4 b, skip, m, nx, hs, h, ht => by
      simp only [WF, Bool.and_eq_true] at h
      obtain ⟨⟨⟨⟨⟨⟨⟨_, w1⟩, w2⟩, w3⟩, w4⟩, _⟩, hb⟩, _⟩ := h
      simp only [tree, verbTreeOK, verbTreeOKL_append, Bool.and_eq_true] at ht
      simp only [verbOK, Bool.and_eq_true]
      exact ⟨⟨⟨⟨verbOKA_of_tree sk a1 _ _ w1 ht.1.1, verbOKA_of_tree sk a2 _ _ w2 ht.1.2.1⟩,
        verbOKA_of_tree sk a3 _ _ w3 ht.1.2.2.1⟩, verbOKA_of_tree sk a4 _ _ w4 ht.1.2.2.2⟩,
        verbOKS_of_tree sk b _ _ _ _ (skipSub_nil sk) hb ht.2⟩
  | .env e bg nm a2 a3 a4 b e2 en nm2, skip, m, nx, hs, h, ht => by
      simp only [WF, Bool.and_eq_true] at h
      obtain ⟨⟨⟨⟨⟨⟨⟨⟨⟨⟨⟨_, _⟩, w2⟩, w3⟩, w4⟩, _⟩, _⟩, hb⟩, _⟩, _⟩, _⟩, _⟩ := h
      simp only [tree, verbTreeOK, verbTreeOKL_append, Bool.and_eq_true] at ht
      simp only [verbOK, Bool.and_eq_true]
      exact ⟨⟨⟨verbOKA_of_tree sk a2 _ _ w2 ht.1.1.1, verbOKA_of_tree sk a3 _ _ w3 ht.1.1.2.1⟩,
        verbOKA_of_tree sk a4 _ _ w4 ht.1.1.2.2⟩, verbOKS_of_tree sk b _ _ _ _ hs hb ht.1.2⟩
  | .venv e bg nm a2 a3 a4 vb e5, skip, m, nx, hs, h, ht => by
      simp only [WF, Bool.and_eq_true] at h
      obtain ⟨⟨⟨⟨⟨⟨⟨⟨⟨_, _⟩, w2⟩, w3⟩, w4⟩, _⟩, hmem⟩, _⟩, _⟩, _⟩ := h
      simp only [tree, verbTreeOK, verbTreeOKL_append, Bool.and_eq_true, hs _ hmem, Bool.true_and,
        Bool.not_eq_true'] at ht
      simp only [verbOK, Bool.and_eq_true, Bool.not_eq_true']
      exact ⟨⟨⟨verbOKA_of_tree sk a2 _ _ w2 ht.1.1.1, verbOKA_of_tree sk a3 _ _ w3 ht.1.1.2.1⟩,
        verbOKA_of_tree sk a4 _ _ w4 ht.1.1.2.2⟩, ht.2⟩
theorem verbOKS_of_tree (sk : List Str) : ∀ (es : List Elem) (skip : List Str) (m : Mode) (ctx : Ctx)
    (nx : List Tok), SkipSub skip sk → WFs skip m ctx nx es = true → verbTreeOKL sk (trees es) = true →
    verbOKS es = true
  | [], _, _, _, _, _, _, _ => by simp [verbOKS]
  | e :: es, skip, m, ctx, nx, hs, h, ht => by
      obtain ⟨h1, _, h3, _⟩ := WFs_cons h
      simp only [trees_cons, verbTreeOKL_cons, Bool.and_eq_true] at ht
      simp only [verbOKS, Bool.and_eq_true]
      exact ⟨verbOK_of_tree sk e _ _ _ hs h1 ht.1, verbOKS_of_tree sk es _ _ _ _ hs h3 ht.2⟩
theorem verbOKArg_of_tree (sk : List Str) : ∀ (a : Arg) (m : Mode) (k : GKind),
    WFarg m k a = true → verbTreeOK sk (treeArg k a) = true → verbOKArg a = true
  | .mk sp o b c, m, k, h, ht => by
      simp only [WFarg, Bool.and_eq_true] at h
      simp only [treeArg, verbTreeOK] at ht
      simp only [verbOKArg]
      exact verbOKS_of_tree sk b _ _ _ _ (skipSub_nil sk) h.2 ht
theorem verbOKA_of_tree (sk : List Str) : ∀ (as : List Arg) (m : Mode) (k : GKind),
    WFa m k as = true → verbTreeOKL sk (treesA k as) = true → verbOKA as = true
  | [], _, _, _, _ => by simp [verbOKA]
  | a :: as, m, k, h, ht => by
      obtain ⟨h1, h2⟩ := WFa_cons h
      simp only [treesA_cons, verbTreeOKL_cons, Bool.and_eq_true] at ht
      simp only [verbOKA, Bool.and_eq_true]
      exact ⟨verbOKArg_of_tree sk a _ _ h1 ht.1, verbOKA_of_tree sk as _ _ h2 ht.2⟩
end

theorem mapCommentTok_id (t : Tok) : mapCommentTok (fun x => x) t = t := by
  unfold mapCommentTok; split <;> rfl

mutual
theorem mapComments_id : ∀ e : Elem, mapComments (fun x => x) e = e
  | .leaf t => by simp [mapComments, mapCommentTok_id]
  | .group o b c => by simp [mapComments, mapCommentsS_id b]
  | .math k o b c => by simp [mapComments, mapCommentsS_id b]
  | .cmd e n a1 a2 a3 a4 => by
      simp [mapComments, mapCommentsA_id a1, mapCommentsA_id a2, mapCommentsA_id a3, mapCommentsA_id a4]
  | .item e n a1 a2 a3 a4 b => by
      simp [mapComments, mapCommentsA_id a1, mapCommentsA_id a2, mapCommentsA_id a3, mapCommentsA_id a4,
        mapCommentsS_id b]
  | .env e bg nm a2 a3 a4 b e2 en nm2 => by
      simp [mapComments, mapCommentsA_id a2, mapCommentsA_id a3, mapCommentsA_id a4, mapCommentsS_id b]
  | .venv e bg nm a2 a3 a4 vb e5 => by
      simp [mapComments, mapCommentsA_id a2, mapCommentsA_id a3, mapCommentsA_id a4]
theorem mapCommentsS_id : ∀ es : List Elem, mapCommentsS (fun x => x) es = es
  | [] => by simp [mapCommentsS]
  | e :: es => by simp [mapCommentsS, mapComments_id e, mapCommentsS_id es]
theorem mapCommentsArg_id : ∀ a : Arg, mapCommentsArg (fun x => x) a = a
  | .mk sp o b c => by simp [mapCommentsArg, mapCommentsS_id b]
theorem mapCommentsA_id : ∀ as : List Arg, mapCommentsA (fun x => x) as = as
  | [] => by simp [mapCommentsA]
  | a :: as => by simp [mapCommentsA, mapCommentsArg_id a, mapCommentsA_id as]
end

/-- **C10 for every strictly parsing input.** The source `s` is the text of a document `d`
(its tree is the parse `es`); replace the comments of `d` by arbitrary other comments `f` (`%`,
then anything but an end of line). The new text parses, in both tolerance modes, to the old tree
with exactly the comment leaves relabelled (`shapeL`: up to the positions, which shift with the
payload lengths), and it is again a tokenizer output. (`mapCommentsD f d` with `f = id` is `d`,
whose text is `s`: the texts in the conclusion are `s` with other payloads.) Only side condition beyond `StrictInput`:
no verbatim-like environment has a body that starts with `%` (`verbTreeOKL`, on the tree). -/
theorem comment_payload_irrelevant_all (skip : List Str) (s : Str) (es : List Expr)
    (hin : StrictInput skip s es) (hv : verbTreeOKL (Tables.skipEnvNames ++ skip) es = true) :
    ∃ d : Doc, flat (toksD d) = s ∧ treeD d = es ∧ mapCommentsD (fun x => x) d = d ∧
      ∀ (tol : Bool) (f : Str → Str), (∀ x, goodPayload (f x) = true) →
        Separated none (toksD (mapCommentsD f d)) ∧
        ∃ t2, parse tol skip (flat (toksD (mapCommentsD f d))) = .ok t2 ∧
          shapeL t2 = shapeL (mapCommentTextsL f es) := by
  obtain ⟨d, ht, hfl, hwf, rfl, hen, hsep⟩ := hin.doc
  have hvd : verbOKS d = true :=
    verbOKS_of_tree _ d _ _ _ _ (fun x hx => hx) hwf hv
  refine ⟨d, hfl, rfl, ?_, fun tol f hf => comment_payload_does_not_matter f hf skip tol d hwf hsep hvd⟩
  exact mapCommentsS_id d

end TexSoup.C10

/-! ## C11 – verbatim-like environments -/
namespace TexSoup.C11
open TexSoup TexSoup.Gram TexSoup.AllInputs

theorem mem_trees {x : Expr} : ∀ {es : List Elem}, x ∈ trees es → ∃ e ∈ es, tree e = x
  | [], h => by simp at h
  | e :: es, h => by
      simp only [trees_cons, List.mem_cons] at h
      rcases h with rfl | h
      · exact ⟨e, List.mem_cons_self, rfl⟩
      · obtain ⟨e', he', ht⟩ := mem_trees h
        exact ⟨e', List.mem_cons_of_mem _ he', ht⟩

theorem WF_of_mem {skip : List Str} {m : Mode} {ctx : Ctx} {nx : List Tok} {e : Elem} :
    ∀ {es : List Elem}, WFs skip m ctx nx es = true → e ∈ es → ∃ nx', WF skip m nx' e = true
  | [], _, h => by simp at h
  | e' :: es, hw, h => by
      obtain ⟨h1, _, h3, _⟩ := WFs_cons hw
      simp only [List.mem_cons] at h
      rcases h with rfl | h
      · exact ⟨_, h1⟩
      · exact WF_of_mem h3 h

/-- **C11 for every strictly parsing input** (top level): an environment node whose name is in
the skip list in force has exactly one text node as its body – nothing in it was interpreted
(`C11G.verbatim_is_one_text` says which text: the raw source up to the first `\end{name}`). -/
theorem verbatim_is_one_text_all (skip : List Str) (s : Str) (es : List Expr)
    (hin : StrictInput skip s es) (name : Str) (args body : List Expr) (pos : Int)
    (hmem : Expr.nenv name args body pos ∈ es)
    (hskip : memStr name (Tables.skipEnvNames ++ skip) = true) :
    ∃ u q, body = [.text u q] := by
  obtain ⟨d, -, -, hwf, rfl, -, -⟩ := hin.doc
  obtain ⟨e, he, ht⟩ := mem_trees hmem
  obtain ⟨nx, hw⟩ := WF_of_mem hwf he
  cases e with
  | leaf t => simp [tree] at ht
  | group o b c => simp [tree] at ht
  | math k o b c => simp [tree] at ht
  | cmd _ _ _ _ _ _ => simp [tree] at ht
  | item _ _ _ _ _ _ _ => simp [tree] at ht
  | env e bg nm a2 a3 a4 b e2 en nm2 =>
    exfalso
    simp only [tree, Expr.nenv.injEq] at ht
    simp only [WF, Bool.and_eq_true, Bool.not_eq_true'] at hw
    obtain ⟨⟨⟨⟨⟨⟨_, hns⟩, _⟩, _⟩, _⟩, _⟩, _⟩ := hw
    rw [ht.1, hskip] at hns
    cases hns
  | venv e bg nm a2 a3 a4 vb e5 =>
    simp only [tree, Expr.nenv.injEq] at ht
    exact ⟨_, _, ht.2.2.1.symm⟩

end TexSoup.C11

/-! ## Non-vacuity -/
namespace TexSoup.AllInputs
open TexSoup TexSoup.Gram

/-- `StrictInput` for the source text of a well-formed document, from evaluable checks. -/
theorem strictInput_of_doc (skip : List Str) (s : Str) (d : Doc)
    (hs : ∀ c ∈ s, isIgnored (catOf c) = false) (ht : tokenize s = some (toksD d))
    (hwf : WFD (Tables.skipEnvNames ++ skip) d = true)
    (hskip : ∀ n, memStr n skip = true → PlainEnvName n)
    (hchk : envNamesShapeB (toksD d) = true ∧ C02.noTrailingEscapeB (toksD d) = true ∧
      beginPlainB (toksD d) = true)
    (hrep : repL .nonMath (treeD d) = true) : StrictInput skip s (treeD d) :=
  strictInput_of_checks skip s _ hs (C02.parse_complete false skip s d ht hwf) hskip
    (fun ts hts => by
      rw [ht] at hts
      cases hts
      exact hchk) hrep

/-- `\begin{a}\item\foo{b}x\end{a}` (`C14G.exDoc`) -/
def src14 : Str := [92, 98, 101, 103, 105, 110, 123, 97, 125, 92, 105, 116, 101, 109, 92, 102, 111, 111,
  123, 98, 125, 120, 92, 101, 110, 100, 123, 97, 125]

theorem tok14 : tokenize src14 = some (toksD C14G.exDoc) := by rfl

theorem in14 : StrictInput [] src14 (treeD C14G.exDoc) :=
  strictInput_of_doc [] src14 C14G.exDoc (by decide) tok14 (by decide)
    (by intro n hn; simp [memStr] at hn) (by decide +kernel) (by decide)

/-- rename `\foo` (offset 14, inside the `\item` inside the environment) to `\bar` -/
example : ∃ t2, parse true [] (serL (applyEdit (treeD C14G.exDoc)
      (.rename [.body 0, .body 0, .body 0] C14G.sBar))) = .ok t2 ∧
    shapeL t2 = shapeL (applyEdit (treeD C14G.exDoc) (.rename [.body 0, .body 0, .body 0] C14G.sBar)) ∧
    serL t2 = serL (applyEdit (treeD C14G.exDoc) (.rename [.body 0, .body 0, .body 0] C14G.sBar)) :=
  C14.rename_command_reparse_all true [] src14 _ in14
    (by intro ts hts; rw [tok14] at hts; cases hts; decide +kernel)
    [.body 0, .body 0, .body 0] C14G.sFoo C14G.sBar _ _ 14 (by decide) (by rfl) (by decide) (by decide)
    (by decide) (by decide) (by decide)

/-- rename the environment `a` to `b` -/
example : ∃ t2, parse false [] (serL (applyEdit (treeD C14G.exDoc) (.rename [.body 0] [98]))) = .ok t2 ∧
    shapeL t2 = shapeL (applyEdit (treeD C14G.exDoc) (.rename [.body 0] [98])) ∧
    serL t2 = serL (applyEdit (treeD C14G.exDoc) (.rename [.body 0] [98])) :=
  C14.rename_environment_reparse_all false [] src14 _ in14
    (by intro ts hts; rw [tok14] at hts; cases hts; decide +kernel)
    [.body 0] [97] [98] _ _ 0 (by decide) (by rfl) (by decide) (by decide) (by decide) (by decide)
    (by decide) (by decide) (by decide)

/-- `\foo{b}.string = "hi 1"` -/
example : ∃ t2, parse false [] (serL (applyEdit (treeD C14G.exDoc)
      (.setString [.body 0, .body 0, .body 0] C14G.sHi))) = .ok t2 ∧
    bareL t2 = bareL (applyEdit (treeD C14G.exDoc) (.setString [.body 0, .body 0, .body 0] C14G.sHi)) ∧
    serL t2 = serL (applyEdit (treeD C14G.exDoc) (.setString [.body 0, .body 0, .body 0] C14G.sHi)) :=
  C14.set_string_command_reparse_all false [] src14 _ in14
    (by intro ts hts; rw [tok14] at hts; cases hts; decide +kernel)
    [.body 0, .body 0, .body 0] C14G.sFoo _ _ 14 C14G.sHi (by decide) (by rfl) (by decide) (by decide)
    (by decide)

/-- `\foo[%a⏎]{x}%b` (`C10G.exDoc`) -/
def src10 : Str := [92, 102, 111, 111, 91, 37, 97, 10, 93, 123, 120, 125, 37, 98]

theorem tok10 : tokenize src10 = some (toksD C10G.exDoc) := by rfl

theorem in10 : StrictInput [] src10 (treeD C10G.exDoc) :=
  strictInput_of_doc [] src10 C10G.exDoc (by decide) tok10 (by decide)
    (by intro n hn; simp [memStr] at hn) (by decide +kernel) (by decide)

example : ∃ d : Doc, flat (toksD d) = src10 ∧ treeD d = treeD C10G.exDoc ∧
    mapCommentsD (fun x => x) d = d ∧
    ∀ (tol : Bool) (f : Str → Str), (∀ x, C10G.goodPayload (f x) = true) →
      Separated none (toksD (mapCommentsD f d)) ∧
      ∃ t2, parse tol [] (flat (toksD (mapCommentsD f d))) = .ok t2 ∧
        shapeL t2 = shapeL (C10G.mapCommentTextsL f (treeD C10G.exDoc)) :=
  C10.comment_payload_irrelevant_all [] src10 _ in10 (by decide)

/-- `\begin{foo}$x{\end{foo}` with `foo` as a user skip name (`C11G.asVerbatim`) -/
def src11 : Str := [92, 98, 101, 103, 105, 110, 123, 102, 111, 111, 125, 36, 120, 123, 92, 101, 110, 100,
  123, 102, 111, 111, 125]

theorem tok11 : tokenize src11 = some (toksD C11G.asVerbatim) := by rfl

theorem in11 : StrictInput [[102, 111, 111]] src11 (treeD C11G.asVerbatim) :=
  strictInput_of_doc [[102, 111, 111]] src11 C11G.asVerbatim (by decide) tok11 (by decide)
    (by
      intro n hn
      have : n = [102, 111, 111] := by simpa [memStr] using hn
      subst this; decide)
    (by decide +kernel) (by decide)

example : ∃ u q, ([Expr.text [36, 120, 123] 11] : List Expr) = [.text u q] :=
  C11.verbatim_is_one_text_all [[102, 111, 111]] src11 _ in11 [102, 111, 111] [] _ 0
    (by
      have : treeD C11G.asVerbatim = [.nenv [102, 111, 111] [] [.text [36, 120, 123] 11] 0] := by rfl
      rw [this]; exact List.mem_cons_self)
    (by decide)

end TexSoup.AllInputs

/-! ## C09 – what a command takes -/
namespace TexSoup.C09
open TexSoup TexSoup.Gram TexSoup.AllInputs

/-- **C09 for every strictly parsing input** (top level): the arguments of a command node are a
run of the shape `read_args` reads – bracket groups, brace groups, and then (directly behind a
brace group) once more bracket groups, brace groups; each group was really parsed (`rep`). Which
groups these are on the token side: `C09G.command_takes_its_groups` and the three necessity
statements. -/
theorem command_args_shape_all (skip : List Str) (s : Str) (es : List Expr)
    (hin : StrictInput skip s es) (name : Str) (args body : List Expr) (pos : Int)
    (hmem : Expr.cmd name args body pos ∈ es) :
    ∃ g1 g2 g3 g4, args = g1 ++ (g2 ++ (g3 ++ g4)) ∧
      (∀ x ∈ g1, isBracketG x = true) ∧ (∀ x ∈ g2, isBraceG x = true) ∧
      (∀ x ∈ g3, isBracketG x = true) ∧ (∀ x ∈ g4, isBraceG x = true) := by
  obtain ⟨d, -, -, hwf, rfl, -, -⟩ := hin.doc
  obtain ⟨e, he, ht⟩ := C11.mem_trees hmem
  cases e with
  | leaf t => simp [tree] at ht
  | group o b c => simp [tree] at ht
  | math k o b c => simp [tree] at ht
  | env _ _ _ _ _ _ _ _ _ _ => simp [tree] at ht
  | venv _ _ _ _ _ _ _ _ => simp [tree] at ht
  | cmd esc n a1 a2 a3 a4 =>
    simp only [tree, Expr.cmd.injEq] at ht
    exact ⟨_, _, _, _, ht.2.1.symm, treesA_bracket_all a1, fun x hx => (treesA_brace_all a2 x hx).1,
      treesA_bracket_all a3, fun x hx => (treesA_brace_all a4 x hx).1⟩
  | item esc n a1 a2 a3 a4 b =>
    simp only [tree, Expr.cmd.injEq] at ht
    exact ⟨_, _, _, _, ht.2.1.symm, treesA_bracket_all a1, fun x hx => (treesA_brace_all a2 x hx).1,
      treesA_bracket_all a3, fun x hx => (treesA_brace_all a4 x hx).1⟩

end TexSoup.C09

namespace TexSoup.AllInputs
open TexSoup TexSoup.Gram

/-- `\foo [a] {b}x` (`C02.exSpaced`) -/
theorem in09 : StrictInput [] C02.srcSpaced (treeD C02.exSpaced) :=
  strictInput_of_doc [] C02.srcSpaced C02.exSpaced (by decide) (by rfl) (by decide)
    (by intro n hn; simp [memStr] at hn) (by decide +kernel) (by decide)

example : ∃ g1 g2 g3 g4,
    ([.group .bracket [.text [97] 6] 5, .group .brace [.text [98] 10] 9] : List Expr) = g1 ++ (g2 ++ (g3 ++ g4)) ∧
    (∀ x ∈ g1, isBracketG x = true) ∧ (∀ x ∈ g2, isBraceG x = true) ∧
    (∀ x ∈ g3, isBracketG x = true) ∧ (∀ x ∈ g4, isBraceG x = true) :=
  C09.command_args_shape_all [] C02.srcSpaced _ in09 [102, 111, 111] _ [] 0
    (by
      have : treeD C02.exSpaced = [.cmd [102, 111, 111]
        [.group .bracket [.text [97] 6] 5, .group .brace [.text [98] 10] 9] [] 0, .text [120] 12] := by rfl
      rw [this]; exact List.mem_cons_self)

end TexSoup.AllInputs

/-! ## Tolerant mode -/
namespace TexSoup.C02
open TexSoup TexSoup.Gram

/-- **Exhaustiveness in tolerant mode, where tolerance was not needed**: if the strict read of the
same tokens succeeds, too (no closer had to be invented), the *tolerant* result is the tree of a
well-formed document with exactly these tokens. -/
theorem grammar_exhaustive_tolerant (skip : List Str) (ts : List Tok) (es : List Expr)
    (h : readTex (parseFuel ts) skip true ts = .ok es)
    (hstrict : ∃ es', readTex (parseFuel ts) skip false ts = .ok es')
    (hy : SHyp skip ts) (hrep : repL .nonMath es = true) :
    ∃ d : Doc, toksD d = ts ∧ WFD skip d = true ∧ treeD d = es := by
  obtain ⟨es', hs⟩ := hstrict
  have := readTex_strict_tolerant _ _ _ _ hs
  rw [h] at this
  cases this
  exact grammar_exhaustive skip ts es hs hy hrep

end TexSoup.C02
