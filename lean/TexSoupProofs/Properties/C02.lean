import TexSoupProofs.Complete.Main
/-!
# C02 – The parse tree mirrors the construct structure of the document

Token-level completeness of the reader (Core C). `TexSoupModel/Grammar.lean` defines the
documents *as written*: `Gram.Elem` (text leaves, brace groups, the four math regions, commands
with argument runs – open, fixed and zero signatures, special commands –, `\item` with the
contents it owns, named environments incl. the named math environments, verbatim-like
environments), the tokens they are written with (`toks`), the tree that is expected (`tree`)
and the frame conditions `WF` under which the tokens mean what the syntax tree says.

Proved here, for **all** documents of the grammar, any nesting depth and length, both
tolerance values, and with the fuel the parser really uses:
`read_tex` returns exactly the generating tree (`tree_mirrors_document`); every construct,
wherever it stands, is read back as exactly its own tree and the tokens after it are left to
its neighbours (`construct_read_back`) – nothing is attached to the wrong parent, split off
or merged; `\begin`/`\end` inside the arguments of a `\newcommand`-style definition are plain
commands (`begin_end_in_special_are_commands`); an `\item` owns exactly the elements up to the
next `\item`, `\end`, unmatched `}` or the end of input (`item_owns_up_to_stop`).

From source *text* the same holds whenever the tokenizer yields the tokens of a well-formed
document (`parse_complete`); that the tokenizer does so for the rendered text of a document
is the tokenizer-inverse part of Core C (not in this file).

Frame conditions found (all in `Gram.WF`, each forced by the reader, see the comments there):
what follows an argument run (`runOK`), what an element may not start with per loop
(`startOK`), the look-ahead `(1,0)` of `read_env` (last conjunct of `WFs`: a free group after an
argument-less command in an environment body must also be readable in the mode of the body),
`\end{x}` closes `\begin{y}` iff `x = strip y`, verbatim bodies must not start with an argument
opener, an `\item` inside `[..]` never ends.
-/
namespace TexSoup.C02
open TexSoup TexSoup.Gram

/-- **Well-formed documents parse and the tree is the structure that was written.** -/
theorem tree_mirrors_document (skip : List Str) (tol : Bool) (d : Doc) (hwf : WFD skip d = true) :
    readTex (parseFuel (toksD d)) skip tol (toksD d) = .ok (treeD d) :=
  document_complete skip tol d hwf

/-- The same from source text, given that the tokenizer produces the document's tokens. -/
theorem parse_complete (tol : Bool) (skip : List Str) (s : Str) (d : Doc)
    (ht : tokenize s = some (toksD d)) (hwf : WFD (Tables.skipEnvNames ++ skip) d = true) :
    parse tol skip s = .ok (treeD d) := by
  unfold parse
  rw [ht]
  exact document_complete _ tol d hwf

/-- **Every construct is read back exactly**, in every mode, with every skip list, for both
tolerance values, whatever follows it (`rest` enters only through its look-ahead window), and
`rest` is handed on untouched: no neighbour is absorbed, nothing is split off. -/
theorem construct_read_back (e : Elem) (skip : List Str) (tol : Bool) (m : Mode) (rest : List Tok)
    (f : Nat) (hwf : WF skip m (win rest) e = true) (hf : 3 * (toks e ++ rest).length + 1 ≤ f) :
    readExpr f skip tol m (toks e ++ rest) = .ok (tree e, rest) :=
  readExpr_complete e skip tol m rest f hwf hf

/-- A zero-argument operator (signature `(0, 0)` in the table: `\in`, `\cup`, `\noindent` …)
takes nothing, whatever follows it – no frame condition at all. -/
theorem zero_arg_operator_absorbs_nothing (skip : List Str) (tol : Bool) (m : Mode) (esc name : Tok)
    (rest : List Tok) (f : Nat) (hesc : esc.cat = .Escape)
    (hsig : cmdSig (-1) (-1) name.text = (0, 0)) (hni : name.text ≠ sItem) (hnb : name.text ≠ sBegin)
    (hf : 3 * (rest.length + 2) + 1 ≤ f) :
    readExpr f skip tol m (esc :: name :: rest) = .ok (.cmd (strip name.text) [] [] esc.pos, rest) := by
  have hwf : WF skip m (win rest) (.cmd esc name [] [] [] []) = true := by
    simp [WF, hesc, hni, hnb, WFa, hsig, runOK, tight]
  have h := readExpr_complete _ skip tol m rest f hwf (by simp [toks]; omega)
  simpa [toks, tree] using h

example : cmdSig (-1) (-1) [105, 110] = (0, 0) := by decide   -- `\in`

/-- The arguments of a special command are read in special mode … -/
theorem special_command_reads_args_in_special_mode (name : Str) (m : Mode)
    (h : memStr name Tables.specialCommands = true) : cmdMode name m = .special := by
  unfold cmdMode; rw [if_pos h]

/-- … which is inherited by every command inside them … -/
theorem special_mode_is_inherited (name : Str) : cmdMode name .special = .special := by
  unfold cmdMode; split <;> rfl

/-- … and there `\begin` and `\end` are plain commands: they open and close nothing, their
groups are ordinary arguments. -/
theorem begin_end_in_special_are_commands (skip : List Str) (tol : Bool) (esc name : Tok)
    (a1 a2 a3 a4 : List Arg) (rest : List Tok) (f : Nat)
    (hn : name.text = sBegin ∨ name.text = sEnd)
    (hwf : WF skip .special (win rest) (.cmd esc name a1 a2 a3 a4) = true)
    (hf : 3 * (toks (.cmd esc name a1 a2 a3 a4) ++ rest).length + 1 ≤ f) :
    readExpr f skip tol .special (esc :: name :: (toksA a1 ++ (toksA a2 ++ (toksA a3 ++ toksA a4))) ++ rest) =
      .ok (.cmd name.text
        (treesA .bracket a1 ++ (treesA .brace a2 ++ (treesA .bracket a3 ++ treesA .brace a4))) [] esc.pos,
        rest) := by
  have h := readExpr_complete _ skip tol .special rest f hwf hf
  have hs : strip name.text = name.text := by
    rcases hn with h | h <;> rw [h] <;> decide
  simpa [toks, tree, hs] using h

theorem WFs_startOK {skip : List Str} {m : Mode} {ctx : Ctx} {nx : List Tok} :
    ∀ {es : List Elem}, WFs skip m ctx nx es = true → ∀ e ∈ es, startOK ctx e = true := by
  intro es
  induction es with
  | nil => intro _ e he; cases he
  | cons x xs ih =>
    intro h e he
    obtain ⟨_, hst, hws, _⟩ := WFs_cons h
    rcases List.mem_cons.mp he with rfl | h'
    · exact hst
    · exact ih hws e h'

/-- **An `\item` owns exactly the content up to the next `\item`, `\end`, unmatched `}` or
the end of input**: its node carries `trees b`; what follows (`rest`) starts with such a
terminator; and no element of `b` starts with one. -/
theorem item_owns_up_to_stop (skip : List Str) (tol : Bool) (m : Mode) (esc name : Tok)
    (a1 a2 a3 a4 : List Arg) (b : List Elem) (rest : List Tok) (f : Nat)
    (hwf : WF skip m (win rest) (.item esc name a1 a2 a3 a4 b) = true)
    (hf : 3 * (toks (.item esc name a1 a2 a3 a4 b) ++ rest).length + 1 ≤ f) :
    readExpr f skip tol m (toks (.item esc name a1 a2 a3 a4 b) ++ rest) =
      .ok (.cmd (strip name.text)
        (treesA .bracket a1 ++ (treesA .brace a2 ++ (treesA .bracket a3 ++ treesA .brace a4)))
        (trees b) esc.pos, rest)
    ∧ itemStop rest = true
    ∧ ∀ e ∈ b, (firstTok e).cat ≠ .GroupEnd ∧ nameText e ≠ some sEnd ∧ nameText e ≠ some sItem := by
  refine ⟨by simpa [tree] using readExpr_complete _ skip tol m rest f hwf hf, ?_, ?_⟩
  · simp only [WF, Bool.and_eq_true] at hwf
    rw [← itemStop_win]; exact hwf.2
  · intro e he
    simp only [WF, Bool.and_eq_true] at hwf
    have h := WFs_startOK hwf.1.2 e he
    simpa [startOK, and_assoc] using h

/-! ## Non-vacuity: concrete documents -/

private def t (s : Str) (p : Nat) (c : TC) : Tok := ⟨s, p, c⟩
private def sItemize : Str := [105, 116, 101, 109, 105, 122, 101]
private def sVerbatim : Str := [118, 101, 114, 98, 97, 116, 105, 109]

/-- `\begin{itemize}\item a $x$\item[b] c\end{itemize}` -/
def exList : Doc :=
  [.env (t [92] 0 .Escape) (t sBegin 1 .CommandName)
    ⟨none, t [123] 6 .GroupBegin, t sItemize 7 .Text, t [125] 14 .GroupEnd⟩ [] [] []
    [.item (t [92] 15 .Escape) (t sItem 16 .CommandName) [] [] [] []
       [.leaf (t [32, 97, 32] 20 .Text),
        .math .dollar (t [36] 23 .MathSwitch) [.leaf (t [120] 24 .Text)] (t [36] 25 .MathSwitch)],
     .item (t [92] 26 .Escape) (t sItem 27 .CommandName)
       [.mk none (t [91] 31 .BracketBegin) [.leaf (t [98] 32 .Text)] (t [93] 33 .BracketEnd)] [] [] []
       [.leaf (t [32, 99] 34 .Text)]]
    (t [92] 36 .Escape) (t sEnd 37 .CommandName)
    ⟨none, t [123] 40 .GroupBegin, t sItemize 41 .Text, t [125] 48 .GroupEnd⟩]

def srcList : Str := [92, 98, 101, 103, 105, 110, 123, 105, 116, 101, 109, 105, 122, 101, 125, 92,
  105, 116, 101, 109, 32, 97, 32, 36, 120, 36, 92, 105, 116, 101, 109, 91, 98, 93, 32, 99, 92, 101,
  110, 100, 123, 105, 116, 101, 109, 105, 122, 101, 125]

example : tokenize srcList = some (toksD exList) := by rfl
example : WFD Tables.skipEnvNames exList = true := by decide
example : treeD exList =
    [.nenv sItemize []
      [.cmd sItem [] [.text [32, 97, 32] 20, .math .dollar [.text [120] 24] 23] 15,
       .cmd sItem [.group .bracket [.text [98] 32] 31] [.text [32, 99] 34] 26] 0] := by rfl
example : parse false [] srcList = .ok (treeD exList) :=
  parse_complete false [] srcList exList (by rfl) (by decide)

/-- `\foo [a] {b}x`: a command with spaced arguments; the spacers are not part of the tree. -/
def exSpaced : Doc :=
  [.cmd (t [92] 0 .Escape) (t [102, 111, 111] 1 .CommandName)
     [.mk (some (t [32] 4 .MergedSpacer)) (t [91] 5 .BracketBegin) [.leaf (t [97] 6 .Text)] (t [93] 7 .BracketEnd)]
     [.mk (some (t [32] 8 .MergedSpacer)) (t [123] 9 .GroupBegin) [.leaf (t [98] 10 .Text)] (t [125] 11 .GroupEnd)]
     [] [],
   .leaf (t [120] 12 .Text)]

def srcSpaced : Str := [92, 102, 111, 111, 32, 91, 97, 93, 32, 123, 98, 125, 120]

example : tokenize srcSpaced = some (toksD exSpaced) := by rfl
example : WFD Tables.skipEnvNames exSpaced = true := by decide
example : parse true [] srcSpaced =
    .ok [.cmd [102, 111, 111] [.group .bracket [.text [97] 6] 5, .group .brace [.text [98] 10] 9] [] 0,
         .text [120] 12] :=
  parse_complete true [] srcSpaced exSpaced (by rfl) (by decide)

/-- `\newcommand{\x}{\begin{y}}`: the `\begin` is a command with one argument. -/
def exSpecial : Doc :=
  [.cmd (t [92] 0 .Escape) (t [110, 101, 119, 99, 111, 109, 109, 97, 110, 100] 1 .CommandName) []
     [.mk none (t [123] 11 .GroupBegin)
        [.cmd (t [92] 12 .Escape) (t [120] 13 .CommandName) [] [] [] []] (t [125] 14 .GroupEnd),
      .mk none (t [123] 15 .GroupBegin)
        [.cmd (t [92] 16 .Escape) (t sBegin 17 .CommandName) []
          [.mk none (t [123] 22 .GroupBegin) [.leaf (t [121] 23 .Text)] (t [125] 24 .GroupEnd)] [] []]
        (t [125] 25 .GroupEnd)]
     [] []]

def srcSpecial : Str := [92, 110, 101, 119, 99, 111, 109, 109, 97, 110, 100, 123, 92, 120, 125, 123,
  92, 98, 101, 103, 105, 110, 123, 121, 125, 125]

example : tokenize srcSpecial = some (toksD exSpecial) := by rfl
example : WFD Tables.skipEnvNames exSpecial = true := by decide
example : parse false [] srcSpecial =
    .ok [.cmd [110, 101, 119, 99, 111, 109, 109, 97, 110, 100]
      [.group .brace [.cmd [120] [] [] 12] 11,
       .group .brace [.cmd sBegin [.group .brace [.text [121] 23] 22] [] 16] 15] [] 0] :=
  parse_complete false [] srcSpecial exSpecial (by rfl) (by decide)

/-- `\begin{verbatim}$ {\end{verbatim}`: unbalanced material in a verbatim-like body. -/
def exVerb : Doc :=
  [.venv (t [92] 0 .Escape) (t sBegin 1 .CommandName)
     ⟨none, t [123] 6 .GroupBegin, t sVerbatim 7 .Text, t [125] 15 .GroupEnd⟩ [] [] []
     [t [36] 16 .MathSwitch, t [32] 17 .MergedSpacer, t [123] 18 .GroupBegin]
     [t [92] 19 .Escape, t sEnd 20 .CommandName, t [123] 23 .GroupBegin, t sVerbatim 24 .Text,
      t [125] 32 .GroupEnd]]

def srcVerb : Str := [92, 98, 101, 103, 105, 110, 123, 118, 101, 114, 98, 97, 116, 105, 109, 125, 36,
  32, 123, 92, 101, 110, 100, 123, 118, 101, 114, 98, 97, 116, 105, 109, 125]

example : tokenize srcVerb = some (toksD exVerb) := by rfl
example : WFD Tables.skipEnvNames exVerb = true := by decide
example : parse false [] srcVerb = .ok [.nenv sVerbatim [] [.text [36, 32, 123] 16] 0] :=
  parse_complete false [] srcVerb exVerb (by rfl) (by decide)

/-- The conditions bite: `\foo{a}[b]` with the bracket meant as text is *not* well-formed
(the reader would absorb it), while after a second brace group it is. -/
example : WFD [] [.cmd (t [92] 0 .Escape) (t [102, 111, 111] 1 .CommandName) []
    [.mk none (t [123] 4 .GroupBegin) [] (t [125] 5 .GroupEnd)] [] [],
    .leaf (t [91] 6 .BracketBegin)] = false := by decide
example : WFD [] [.cmd (t [92] 0 .Escape) (t [102, 111, 111] 1 .CommandName) []
    [.mk none (t [123] 4 .GroupBegin) [] (t [125] 5 .GroupEnd)]
    [.mk none (t [91] 6 .BracketBegin) [] (t [93] 7 .BracketEnd)]
    [.mk none (t [123] 8 .GroupBegin) [] (t [125] 9 .GroupEnd)],
    .leaf (t [91] 10 .BracketBegin)] = true := by decide

/-- The look-ahead of `read_env` bites: `\begin{equation}\in{\item}\end{equation}` is not
well-formed – the peek after `\in` reads `{\item}` as an argument *in math mode*, where `\item`
is an assertion error – although the group itself would be read in non-math mode. In an
environment that is not a math environment the same body is fine. -/
private def sEquation : Str := [101, 113, 117, 97, 116, 105, 111, 110]
def exPeek (name : Str) (p : Nat) : Doc :=
  [.env (t [92] 0 .Escape) (t sBegin 1 .CommandName)
    ⟨none, t [123] 6 .GroupBegin, t name 7 .Text, t [125] (7 + p) .GroupEnd⟩ [] [] []
    [.cmd (t [92] (8 + p) .Escape) (t [105, 110] (9 + p) .CommandName) [] [] [] [],
     .group (t [123] (11 + p) .GroupBegin)
       [.item (t [92] (12 + p) .Escape) (t sItem (13 + p) .CommandName) [] [] [] [] []]
       (t [125] (17 + p) .GroupEnd)]
    (t [92] (18 + p) .Escape) (t sEnd (19 + p) .CommandName)
    ⟨none, t [123] (22 + p) .GroupBegin, t name (23 + p) .Text, t [125] (23 + p + p) .GroupEnd⟩]

def srcPeekEq : Str := [92, 98, 101, 103, 105, 110, 123, 101, 113, 117, 97, 116, 105, 111, 110, 125, 92,
  105, 110, 123, 92, 105, 116, 101, 109, 125, 92, 101, 110, 100, 123, 101, 113, 117, 97, 116, 105, 111,
  110, 125]
def srcPeekA : Str := [92, 98, 101, 103, 105, 110, 123, 97, 125, 92, 105, 110, 123, 92, 105, 116, 101,
  109, 125, 92, 101, 110, 100, 123, 97, 125]

example : tokenize srcPeekEq = some (toksD (exPeek sEquation 8)) := by rfl
example : WFD Tables.skipEnvNames (exPeek sEquation 8) = false := by decide
example : readTex 14 Tables.skipEnvNames false (toksD (exPeek sEquation 8)) = .error .assertion := by rfl
example : tokenize srcPeekA = some (toksD (exPeek [97] 1)) := by rfl
example : WFD Tables.skipEnvNames (exPeek [97] 1) = true := by decide
example : parse false [] srcPeekA = .ok (treeD (exPeek [97] 1)) :=
  parse_complete false [] srcPeekA _ (by rfl) (by decide)

end TexSoup.C02
