import TexSoupModel.Read
/-!
# The tables the properties name

`TexSoupModel/Generated/Tables.lean` is regenerated from the repository on every run, so the
model always follows the tables of the code. Several properties, however, *name* entries of
those tables: the built-in verbatim-like environments (C01, C11), the named math environments
and the zero-argument operators (C12), the commands with a fixed signature (C09, C16), the
sizing prefixes (C12, C16), and the characters that end a line, open a comment, are blanks
(C08, C10, C13, C19). An edit of a table that drops or re-files such an entry leaves model and
code in agreement while the property no longer says what it said. The theorems below state
those entries against the generated tables; they stop compiling when such an edit is made.
They deliberately say *membership* and *exact category*, not equality of whole tables: adding
a new verbatim-like name, a new math environment or a new signature does not falsify a property.
-/
namespace TexSoup.TableSpec
open TexSoup

/-- C01/C11: the built-in verbatim-like environments `verbatim`, `lstlisting`, `Verbatim`,
`verbatimtab`, `listing`. -/
theorem builtin_verbatim_names :
    memStr [118, 101, 114, 98, 97, 116, 105, 109] Tables.skipEnvNames = true ∧
    memStr [108, 115, 116, 108, 105, 115, 116, 105, 110, 103] Tables.skipEnvNames = true ∧
    memStr [86, 101, 114, 98, 97, 116, 105, 109] Tables.skipEnvNames = true ∧
    memStr [118, 101, 114, 98, 97, 116, 105, 109, 116, 97, 98] Tables.skipEnvNames = true ∧
    memStr [108, 105, 115, 116, 105, 110, 103] Tables.skipEnvNames = true := by decide

/-- C12: the named math environments (`equation`, `align`, `gather`, `multline`, `eqnarray`,
`flalign` with their starred forms, `alignat`, `array`, `split`, `math`, `displaymath`). -/
theorem named_math_environments :
    ∀ n ∈ ([[101, 113, 117, 97, 116, 105, 111, 110], [101, 113, 117, 97, 116, 105, 111, 110, 42],
            [97, 108, 105, 103, 110], [97, 108, 105, 103, 110, 42], [97, 108, 105, 103, 110, 97, 116],
            [103, 97, 116, 104, 101, 114], [103, 97, 116, 104, 101, 114, 42],
            [109, 117, 108, 116, 108, 105, 110, 101], [109, 117, 108, 116, 108, 105, 110, 101, 42],
            [101, 113, 110, 97, 114, 114, 97, 121], [101, 113, 110, 97, 114, 114, 97, 121, 42],
            [102, 108, 97, 108, 105, 103, 110], [102, 108, 97, 108, 105, 103, 110, 42],
            [97, 114, 114, 97, 121], [115, 112, 108, 105, 116], [109, 97, 116, 104],
            [100, 105, 115, 112, 108, 97, 121, 109, 97, 116, 104]] : List Str),
      memStr n Tables.mathEnvNames = true := by decide

/-- No name is both verbatim-like and a math environment (the classification of `\begin{name}`
does not depend on the order of the two tests). -/
theorem verbatim_and_math_disjoint :
    ∀ n ∈ Tables.skipEnvNames, memStr n Tables.mathEnvNames = false := by decide

/-- C12: the zero-argument operators `\cup`, `\cap`, `\in`, `\notin`, `\infty` take no argument. -/
theorem zero_argument_operators :
    ∀ n ∈ ([[99, 117, 112], [99, 97, 112], [105, 110], [110, 111, 116, 105, 110],
            [105, 110, 102, 116, 121]] : List Str), cmdSig (-1) (-1) n = (0, 0) := by decide

/-- C16: `\def`, `\textbf`, `\section`, `\label` have a fixed signature with a mandatory argument. -/
theorem fixed_signatures :
    cmdSig (-1) (-1) [100, 101, 102] = (2, 0) ∧
    cmdSig (-1) (-1) [116, 101, 120, 116, 98, 102] = (1, 0) ∧
    cmdSig (-1) (-1) [115, 101, 99, 116, 105, 111, 110] = (1, 1) ∧
    cmdSig (-1) (-1) [108, 97, 98, 101, 108] = (1, 0) := by decide

/-- C08/C16: the side condition "the mandatory arguments of `\\def`, `\\textbf`, `\\section` and `\\label` are
brace-delimited" names ALL commands with a mandatory argument: no other name of the table has one (a bare token
after any other command is never turned into a made-up `{..}` argument). The generated table is sorted by name. -/
theorem mandatory_argument_commands :
    (Tables.signatures.filter (fun e => decide (0 < e.2.1))).map (·.1) =
      [[100, 101, 102], [108, 97, 98, 101, 108], [115, 101, 99, 116, 105, 111, 110], [116, 101, 120, 116, 98, 102]] := by
  decide

/-- C09: names outside the table have the open signature; in particular a starred name is not
its base name (`\section*` takes every group that follows). -/
theorem starred_names_are_open :
    ∀ e ∈ Tables.signatures, cmdSig (-1) (-1) (e.1 ++ [42]) = (-1, -1) := by decide

/-- C09/C12: `\item`, `\begin`, `\end` and ordinary names such as `\x`, `\foo`, `\text`, `\itemsep`,
`\endnote` are outside the fixed-signature table. -/
theorem ordinary_names_are_open :
    ∀ n ∈ ([[105, 116, 101, 109], [98, 101, 103, 105, 110], [101, 110, 100], [120], [102, 111, 111],
            [116, 101, 120, 116], [105, 116, 101, 109, 115, 101, 112], [101, 110, 100, 110, 111, 116, 101]] : List Str),
      cmdSig (-1) (-1) n = (-1, -1) := by decide

/-- C12/C16: the sizing prefixes `\left`, `\right`, `\big`, `\Big`, `\bigg`, `\Bigg`, and the
delimiters `(`, `)`, `[`, `]`, `|`, `.` each of them may be followed by. -/
theorem sizing_prefixes_and_delimiters :
    (∀ n ∈ ([[108, 101, 102, 116], [114, 105, 103, 104, 116], [98, 105, 103], [66, 105, 103],
             [98, 105, 103, 103], [66, 105, 103, 103]] : List Str), n ∈ Tables.sizePrefix) ∧
    (∀ p ∈ Tables.sizePrefix, ∀ d ∈ ([[40], [41], [91], [93], [124], [46]] : List Str),
      memStr (p ++ d) Tables.punctuationCommands = true) := by decide +kernel

/-- `\newcommand`, `\renewcommand`, `\providecommand` read their arguments in special mode (C01, C02). -/
theorem definition_commands :
    ∀ n ∈ ([[110, 101, 119, 99, 111, 109, 109, 97, 110, 100],
            [114, 101, 110, 101, 119, 99, 111, 109, 109, 97, 110, 100],
            [112, 114, 111, 118, 105, 100, 101, 99, 111, 109, 109, 97, 110, 100]] : List Str),
      cmdMode n .nonMath = .special := by decide

/-! ### characters -/

/-- The characters of a category, as the table lists them. -/
def charsOf (c : CC) : List Nat := (Tables.catTable.filter (fun e => e.2 == c)).map (·.1)

/-- C10/C13/C19: a line ends at LF or CR and nowhere else (not at FF, VT, NEL, U+2028 …). -/
theorem end_of_line_chars : charsOf .EndOfLine = [10, 13] := by decide +kernel

/-- C08/C09/C16: the blanks that may be dropped in front of an argument group are space and tab. -/
theorem spacer_chars : charsOf .Spacer = [9, 32] := by decide +kernel

/-- C10: `%` and nothing else starts a comment; C19/C06: NUL is ignored, DEL invalid. -/
theorem comment_ignored_invalid_chars :
    charsOf .Comment = [37] ∧ charsOf .Ignored = [0] ∧ charsOf .Invalid = [127] := by decide +kernel

/-- The structural characters. -/
theorem structural_chars :
    charsOf .Escape = [92] ∧ charsOf .GroupBegin = [123] ∧ charsOf .GroupEnd = [125] ∧
    charsOf .MathSwitch = [36] ∧ charsOf .BracketBegin = [91] ∧ charsOf .BracketEnd = [93] ∧
    charsOf .ParenBegin = [40] ∧ charsOf .ParenEnd = [41] := by decide +kernel

/-- C02/C09/C19: command names are made of the ASCII letters; no other character is a letter
(in particular no non-ASCII alphabetic character). -/
theorem letter_chars :
    charsOf .Letter = (List.range 26).map (· + 65) ++ (List.range 26).map (· + 97) := by decide +kernel

/-- Every code point outside the table is `Other`: the category of a character depends on
nothing but the table (no `str.isalpha`, `str.isspace`, … short cut). -/
theorem untabled_is_other (c : Nat) (h : ∀ e ∈ Tables.catTable, e.1 ≠ c) : catOf c = .Other := by
  unfold catOf
  generalize Tables.catTable = t at h
  induction t with
  | nil => rfl
  | cons e t ih =>
    have h1 : e.1 ≠ c := h e (List.mem_cons_self ..)
    have h2 := ih (fun e' he' => h e' (List.mem_cons_of_mem _ he'))
    simp only [lookupD]
    rw [if_neg (by simpa using fun h => h1 h.symm)]
    exact h2

example : catOf 233 = .Other ∧ catOf 12 = .Other ∧ catOf 8232 = .Other ∧ catOf 0xD800 = .Other := by decide +kernel

end TexSoup.TableSpec
