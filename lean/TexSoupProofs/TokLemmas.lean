import TexSoupProofs.TokLemmas.Basic
import TexSoupProofs.TokLemmas.RunTk
import TexSoupProofs.TokLemmas.Pass
import TexSoupProofs.TokLemmas.FirstMatch
import TexSoupProofs.TokLemmas.FirstTok
import TexSoupProofs.TokLemmas.AfterEscape
