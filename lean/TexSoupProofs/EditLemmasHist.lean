import TexSoupProofs.EditLemmasMain
/-!
# Edit lemmas, part 5: histories (reference string model, well-formedness invariant)
-/
namespace TexSoup.Edit

/-! ## The reference document model: a string and resolved splices -/

/-- A resolved edit `(offset, length, new text)` applied to the reference string. -/
def refApply (s : Str) (r : Nat × Nat × Str) : Str := splice s r.1 r.2.1 r.2.2

/-- Resolution of an edit that has a site. -/
def resolveSite (es : List Expr) (op : EditOp) : Option (Nat × Nat × Str) :=
  match siteOf es op with
  | some σ => match getAtRoot es σ.q with
    | some e => match holderList e σ.st, siteOffRoot es σ.q σ.st with
      | some l, some k => some (k, (serL ((l.drop σ.st.idx).take σ.d)).length, serL σ.ns)
      | _, _ => none
    | none => none
  | none => none

/-- Offset, length and new text of an edit, computed from the current tree; `none` when the
edit fails (or, for `setString` on a command whose single argument cannot hold contents,
changes nothing). For the renaming of an environment the span runs from the first name to
the second one (C14 `rename_splice_env` gives the two name spans separately). -/
def resolve (es : List Expr) : EditOp → Option (Nat × Nat × Str)
  | .delete p => resolveSite es (.delete p)
  | .replace p ns => resolveSite es (.replace p ns)
  | .insert c i ns => resolveSite es (.insert c i ns)
  | .append c ns => resolveSite es (.append c ns)
  | .setString p s => resolveSite es (.setString p s)
  | .rename p n =>
    if p.isEmpty then none else
    match getAtRoot es p, offAtRoot es p with
    | some (.cmd old _ _ _), some k => some (k + 1, old.length, n)
    | some (.nenv old a b _), some k =>
      some (k + 7, old.length + ((1 + (serL a).length + (serL b).length + 5) + old.length),
        n ++ ((125 :: (serL a ++ (serL b ++ strEnd))) ++ n))
    | _, _ => none
  | .setArgs p as =>
    if p.isEmpty then none else
    match getAtRoot es p, offAtRoot es p with
    | some y, some k =>
      if y.hasArgs then some (k + (argsPre y).length, (serL y.args).length, serL as) else none
    | _, _ => none

/-- One step of the reference model. -/
def refStep (es : List Expr) (s : Str) (op : EditOp) : Str :=
  match resolve es op with
  | some r => refApply s r
  | none => s

/-- The reference model run along a history: the string is spliced, the tree is only used
to resolve targets into offsets. -/
def refRun : List Expr → Str → List EditOp → Str
  | _, s, [] => s
  | es, s, op :: ops => refRun (applyEdit es op) (refStep es s op) ops

theorem resolveSite_step {es : List Expr} {op : EditOp}
    (hop : ∀ p n, op ≠ .rename p n) (hop' : ∀ p a, op ≠ .setArgs p a) :
    serL (applyEdit es op) = match resolveSite es op with
      | some r => refApply (serL es) r
      | none => serL es := by
  cases h : siteOf es op with
  | none => simp [resolveSite, h, siteOf_none h hop hop']
  | some σ =>
    obtain ⟨e, l, k, es', he, hl, hd, hoff, _, happ, hser⟩ := site_splice h
    simp [resolveSite, h, he, hl, hoff, happ, hser, refApply, splice]

theorem applyEdit_of_none {es : List Expr} {op : EditOp}
    (h : applyEditE (rootWrap es) op = none) : applyEdit es op = es := by
  simp [applyEdit, h]

theorem offAtRoot_of_get {es : List Expr} {p : Path} {y : Expr} (hp : p ≠ [])
    (hy : getAtRoot es p = some y) : ∃ k, offAtRoot es p = some k := by
  cases p with
  | nil => exact absurd rfl hp
  | cons t q =>
    obtain ⟨A, _, _, hoff, _⟩ := updAtRoot_frame hy
    exact ⟨_, hoff⟩

/-- Every edit is, on the serialised text, the splice computed by `resolve`. -/
theorem resolve_step (es : List Expr) (op : EditOp) :
    serL (applyEdit es op) = refStep es (serL es) op := by
  unfold refStep
  cases op with
  | delete p => exact resolveSite_step (by intros; simp) (by intros; simp)
  | replace p ns => exact resolveSite_step (by intros; simp) (by intros; simp)
  | insert c i ns => exact resolveSite_step (by intros; simp) (by intros; simp)
  | append c ns => exact resolveSite_step (by intros; simp) (by intros; simp)
  | setString p s => exact resolveSite_step (by intros; simp) (by intros; simp)
  | rename p n =>
    by_cases hp : p = []
    · subst hp; simp [resolve, applyEdit, applyEditE]
    · simp only [resolve, isEmpty_false_of_ne hp, Bool.false_eq_true, if_false]
      cases hy : getAtRoot es p with
      | none =>
        rw [applyEdit_of_none (by rw [applyEditE_rename n hp]; exact updAt_none _ hy)]
      | some y =>
        obtain ⟨k, hk⟩ := offAtRoot_of_get hp hy
        cases y with
        | cmd old a b pos =>
          obtain ⟨k', hk', _, hser⟩ := rename_cmd_core (new := n) hp hy
          rw [hk] at hk'; injection hk' with hk'; subst hk'
          simp [hk, hser, refApply, splice]
        | nenv old a b pos =>
          obtain ⟨A, B, hser, hoff, _, hser', _⟩ :=
            node_edit (y' := .nenv n a b pos) hp hy rfl (applyEditE_rename n hp)
          rw [hk] at hoff; injection hoff with hoff; subst hoff
          simp only [hk, refApply, splice]
          have := frame_sub (C := strBegin)
            (M := old ++ ((125 :: (serL a ++ (serL b ++ strEnd))) ++ old))
            (M' := n ++ ((125 :: (serL a ++ (serL b ++ strEnd))) ++ n)) (D := [125])
            hser hser' (by simp [ser, List.append_assoc]) (by simp [ser, List.append_assoc])
            (k := A.length + 7) (by simp [strBegin])
          rw [this]
          simp [strEnd, Nat.add_assoc, Nat.add_comm, Nat.add_left_comm]
        | text t pos =>
          rw [applyEdit_of_none (by rw [applyEditE_rename n hp]; exact updAt_fail hy rfl)]
        | math mk b pos =>
          rw [applyEdit_of_none (by rw [applyEditE_rename n hp]; exact updAt_fail hy rfl)]
        | group gk b pos =>
          rw [applyEdit_of_none (by rw [applyEditE_rename n hp]; exact updAt_fail hy rfl)]
  | setArgs p as =>
    by_cases hp : p = []
    · subst hp; simp [resolve, applyEdit, applyEditE]
    · simp only [resolve, isEmpty_false_of_ne hp, Bool.false_eq_true, if_false]
      cases hy : getAtRoot es p with
      | none =>
        rw [applyEdit_of_none (by rw [applyEditE_setArgs as hp]; exact updAt_none _ hy)]
      | some y =>
        obtain ⟨k, hk⟩ := offAtRoot_of_get hp hy
        by_cases ha : y.hasArgs = true
        · obtain ⟨k', hk', _, hser⟩ := setArgs_core as hp hy ha
          rw [hk] at hk'; injection hk' with hk'; subst hk'
          simp [hk, ha, hser, refApply, splice]
        · simp only [Bool.not_eq_true] at ha
          rw [applyEdit_of_none (by
            rw [applyEditE_setArgs as hp]; exact updAt_fail hy (setArgsE_none as ha))]
          simp [hk, ha]

theorem applyEdits_cons (es : List Expr) (op : EditOp) (ops : List EditOp) :
    applyEdits es (op :: ops) = applyEdits (applyEdit es op) ops := rfl

/-- After any history the serialised text is the reference string. -/
theorem history_refines_core : ∀ (ops : List EditOp) (es : List Expr),
    serL (applyEdits es ops) = refRun es (serL es) ops := by
  intro ops
  induction ops with
  | nil => intro es; rfl
  | cons op ops ih =>
    intro es
    rw [applyEdits_cons, ih, refRun, resolve_step]

/-! ## Well-formedness of argument lists -/

/-- What the elements of an `args` list look like: a group, or a bare command (no
arguments, no contents), as `TexArgs` and the reader build them. -/
def argShape : Expr → Bool
  | .group _ _ _ => true
  | .cmd _ [] [] _ => true
  | _ => false

mutual
/-- Every `args` list, at any depth, consists of groups and bare commands. -/
def TreeOK : Expr → Bool
  | .text _ _ => true
  | .cmd _ a b _ => argsOK a && listOK b
  | .nenv _ a b _ => argsOK a && listOK b
  | .math _ b _ => listOK b
  | .group _ b _ => listOK b
def listOK : List Expr → Bool
  | [] => true
  | e :: es => TreeOK e && listOK es
def argsOK : List Expr → Bool
  | [] => true
  | a :: as => argShape a && (TreeOK a && argsOK as)
end

theorem listOK_iff (l : List Expr) : listOK l = true ↔ ∀ x ∈ l, TreeOK x = true := by
  induction l with
  | nil => simp [listOK]
  | cons e es ih => simp [listOK, ih]

theorem argsOK_iff (l : List Expr) :
    argsOK l = true ↔ ∀ a ∈ l, argShape a = true ∧ TreeOK a = true := by
  induction l with
  | nil => simp [argsOK]
  | cons e es ih => simp [argsOK, ih, and_assoc]

theorem TreeOK_eq (e : Expr) : TreeOK e = (argsOK e.args && listOK e.body) := by
  cases e <;> simp [TreeOK, Expr.args, Expr.body, argsOK, listOK]

theorem TreeOK_setBody {e : Expr} {b : List Expr} (he : TreeOK e = true) (hb : listOK b = true) :
    TreeOK (e.setBody b) = true := by
  cases e <;> simp_all [TreeOK, Expr.setBody]

theorem TreeOK_setArgs {e : Expr} {a : List Expr} (he : TreeOK e = true) (ha : argsOK a = true) :
    TreeOK (e.setArgs a) = true := by
  cases e <;> simp_all [TreeOK, Expr.setArgs]

theorem listOK_spliceList {l ns : List Expr} (j d : Nat) (hl : listOK l = true)
    (hn : listOK ns = true) : listOK (spliceList j d ns l) = true := by
  rw [listOK_iff] at hl hn ⊢
  intro x hx
  simp only [spliceList, List.mem_append] at hx
  rcases hx with hx | hx | hx
  · exact hl x (List.mem_of_mem_take hx)
  · exact hn x hx
  · exact hl x (List.mem_of_mem_drop hx)

theorem listOK_set {l : List Expr} {j : Nat} {x : Expr} (hl : listOK l = true)
    (hx : TreeOK x = true) : listOK (l.set j x) = true := by
  rw [listOK_iff] at hl ⊢
  intro y hy
  rcases List.mem_or_eq_of_mem_set hy with h | h
  · exact hl y h
  · subst h; exact hx

theorem argsOK_set {l : List Expr} {i : Nat} {a : Expr} (hl : argsOK l = true)
    (hs : argShape a = true) (ha : TreeOK a = true) : argsOK (l.set i a) = true := by
  rw [argsOK_iff] at hl ⊢
  intro y hy
  rcases List.mem_or_eq_of_mem_set hy with h | h
  · exact hl y h
  · subst h; exact ⟨hs, ha⟩

theorem holderList_ok {e : Expr} {st : Step} {l : List Expr} (he : TreeOK e = true)
    (hl : holderList e st = some l) : listOK l = true := by
  rw [TreeOK_eq, Bool.and_eq_true] at he
  cases st with
  | body j =>
    simp only [holderList] at hl
    split at hl
    · injection hl with hl; subst hl; exact he.2
    · cases hl
  | arg i j =>
    simp only [holderList] at hl
    split at hl
    · rename_i a ha
      split at hl
      · injection hl with hl; subst hl
        have := ((argsOK_iff _).mp he.1 a (List.mem_of_getElem? ha)).2
        rw [TreeOK_eq, Bool.and_eq_true] at this
        exact this.2
      · cases hl
    · cases hl

/-- The argument that holds the list addressed by `st` keeps its shape when it receives the
new contents `l'` (always true for a group; a bare command must stay bare). -/
def shapeKept (e : Expr) (st : Step) (l' : List Expr) : Prop :=
  match st with
  | .body _ => True
  | .arg i _ => ∀ a, e.args[i]? = some a → argShape (a.setBody l') = true

theorem editHolder_ok {e e' : Expr} {st : Step} {l l' : List Expr}
    {g : Nat → List Expr → Option (List Expr)} (he : TreeOK e = true)
    (hl : holderList e st = some l) (hg : g st.idx l = some l') (hl' : listOK l' = true)
    (hs : shapeKept e st l') (hed : editHolder e st g = some e') : TreeOK e' = true := by
  cases st with
  | body j =>
    simp only [holderList] at hl
    split at hl
    · injection hl with hl; subst hl
      simp only [editHolder, Step.idx] at hed hg
      rw [hg] at hed; injection hed with hed; subst hed
      exact TreeOK_setBody he hl'
    · cases hl
  | arg i j =>
    simp only [holderList] at hl
    split at hl
    · rename_i a ha
      split at hl
      · injection hl with hl; subst hl
        simp only [editHolder, Step.idx, ha] at hed hg
        rw [hg] at hed; injection hed with hed; subst hed
        have he2 := he
        rw [TreeOK_eq, Bool.and_eq_true] at he2
        have haok := ((argsOK_iff _).mp he2.1 a (List.mem_of_getElem? ha)).2
        exact TreeOK_setArgs he (argsOK_set he2.1 (hs a ha) (TreeOK_setBody haok hl'))
      · cases hl
    · cases hl

theorem argShape_setBody_of_nonempty {a : Expr} {l' : List Expr} (hs : argShape a = true)
    (hne : a.body ≠ []) : argShape (a.setBody l') = true := by
  cases a with
  | group k b p => rfl
  | cmd n aa b p =>
    cases aa <;> cases b <;> simp_all [argShape, Expr.body]
  | text _ _ => simp [argShape] at hs
  | nenv _ _ _ _ => simp [argShape] at hs
  | math _ _ _ => simp [argShape] at hs

theorem shapeKept_of_nonempty {e : Expr} {st : Step} {l l' : List Expr} (he : TreeOK e = true)
    (hl : holderList e st = some l) (hne : l ≠ []) : shapeKept e st l' := by
  cases st with
  | body j => trivial
  | arg i j =>
    intro a ha
    rw [TreeOK_eq, Bool.and_eq_true] at he
    have hsh := ((argsOK_iff _).mp he.1 a (List.mem_of_getElem? ha)).1
    simp only [holderList, ha] at hl
    split at hl
    · injection hl with hl; subst hl
      exact argShape_setBody_of_nonempty hsh hne
    · cases hl

theorem stepGet_ok {e x : Expr} {st : Step} (he : TreeOK e = true) (hx : stepGet e st = some x) :
    TreeOK x = true := by
  obtain ⟨l, hl, hlx⟩ := stepGet_holder hx
  exact (listOK_iff l).mp (holderList_ok he hl) x (List.mem_of_getElem? hlx)

theorem getAt_ok {q : Path} : ∀ {e y : Expr}, TreeOK e = true → getAt e q = some y →
    TreeOK y = true := by
  induction q with
  | nil => intro e y he h; simp only [getAt] at h; injection h with h; subst h; exact he
  | cons st q ih =>
    intro e y he h
    rw [getAt_cons] at h
    split at h
    · rename_i x hx; exact ih (stepGet_ok he hx) h
    · cases h

/-- `updAt` keeps the tree well-formed if the rewritten node stays well-formed. -/
theorem updAt_ok {q : Path} {f : Expr → Option Expr} : ∀ {e e' : Expr}, TreeOK e = true →
    (∀ y y', getAt e q = some y → f y = some y' → TreeOK y' = true) →
    updAt e q f = some e' → TreeOK e' = true := by
  induction q with
  | nil =>
    intro e e' he hf hu
    exact hf e e' rfl (by simpa [updAt] using hu)
  | cons st q ih =>
    intro e e' he hf hu
    rw [updAt_cons] at hu
    split at hu
    · rename_i x hx
      split at hu
      · rename_i x' hx'
        obtain ⟨l, hl, hlx⟩ := stepGet_holder hx
        have hx'ok : TreeOK x' = true := by
          apply ih (stepGet_ok he hx) _ hx'
          intro y y' hy hfy
          exact hf y y' (by rw [getAt_cons, hx]; exact hy) hfy
        have hne : l ≠ [] := by
          intro h; subst h; simp at hlx
        exact editHolder_ok (g := fun j l => some (l.set j x')) he hl rfl
          (listOK_set (holderList_ok he hl) hx'ok) (shapeKept_of_nonempty he hl hne) hu
      · cases hu
    · cases hu

theorem rootWrap_ok (es : List Expr) : TreeOK (rootWrap es) = listOK es := by
  simp [rootWrap, TreeOK, argsOK]

def _root_.TexSoup.Expr.isGroup : Expr → Bool
  | .group _ _ _ => true
  | _ => false

/-- New material of an edit is well-formed; `setString` does not write into a bare command
that stands as the single argument of a command (that would give it contents). -/
def OpOK (es : List Expr) : EditOp → Prop
  | .replace _ ns => listOK ns = true
  | .insert _ _ ns => listOK ns = true
  | .append _ ns => listOK ns = true
  | .setArgs _ as => argsOK as = true
  | .setString p _ => ∀ n a b pos, getAtRoot es p = some (.cmd n [a] b pos) → a.isGroup = true
  | _ => True

theorem setStringSite_cases {y : Expr} {st : Step} {d : Nat} (h : setStringSite y = some (st, d)) :
    st = .body 0 ∨ (st = .arg 0 0 ∧ ∃ n a b pos, y = .cmd n [a] b pos) := by
  cases y with
  | text t p => simp [setStringSite] at h
  | cmd n a b p =>
    match a with
    | [] => simp [setStringSite] at h
    | _ :: _ :: _ => simp [setStringSite] at h
    | [a] =>
      simp only [setStringSite] at h
      split at h
      · injection h with h; injection h with h1 h2
        exact Or.inr ⟨h1.symm, n, a, b, p, rfl⟩
      · cases h
  | nenv n a b p =>
    simp only [setStringSite] at h
    split at h
    · injection h with h; injection h with h1 h2; exact Or.inl h1.symm
    · cases h
  | math k b p =>
    simp only [setStringSite] at h
    split at h
    · injection h with h; injection h with h1 h2; exact Or.inl h1.symm
    · cases h
  | group k b p =>
    simp only [setStringSite] at h
    split at h
    · injection h with h; injection h with h1 h2; exact Or.inl h1.symm
    · cases h

theorem site_ok {es : List Expr} {op : EditOp} {σ : Site} (h : siteOf es op = some σ)
    (hes : listOK es = true) (hns : listOK σ.ns = true)
    (hshape : ∀ e l, getAtRoot es σ.q = some e → holderList e σ.st = some l →
      shapeKept e σ.st (spliceList σ.st.idx σ.d σ.ns l)) :
    listOK (applyEdit es op) = true := by
  obtain ⟨e, l, he, hl, hd, hop⟩ := siteOf_spec h
  obtain ⟨_, _, _, es', _, _, _, _, hsome, happ, _⟩ := site_splice h
  have hR : TreeOK (rootWrap es') = true := by
    apply updAt_ok (f := holderSpliceF σ.st σ.d σ.ns) (e := rootWrap es)
      (by rw [rootWrap_ok]; exact hes) _ (hop.symm.trans hsome)
    intro y y' hy hfy
    have hye : y = e := by
      have : getAtRoot es σ.q = some y := hy
      rw [he] at this; injection this with this; exact this.symm
    subst hye
    have hyok : TreeOK y = true := getAt_ok (by rw [rootWrap_ok]; exact hes) hy
    exact editHolder_ok (l' := spliceList σ.st.idx σ.d σ.ns l) hyok hl (by simp [hd])
      (listOK_spliceList _ _ (holderList_ok hyok hl) hns) (hshape y l he hl) hfy
  rw [happ]; rw [rootWrap_ok] at hR; exact hR

theorem renameE_ok {n : Str} {y y' : Expr} (hy : TreeOK y = true) (h : renameE n y = some y') :
    TreeOK y' = true := by
  cases y <;> simp_all [renameE, TreeOK] <;> subst h <;> simp_all [TreeOK]

/-- One edit keeps the document well-formed. -/
theorem edit_ok {es : List Expr} {op : EditOp} (hes : listOK es = true) (hop : OpOK es op) :
    listOK (applyEdit es op) = true := by
  have hroot : TreeOK (rootWrap es) = true := by rw [rootWrap_ok]; exact hes
  have node : ∀ (p : Path) (f : Expr → Option Expr),
      applyEditE (rootWrap es) op = updAt (rootWrap es) p f →
      (∀ y y', TreeOK y = true → f y = some y' → TreeOK y' = true) →
      listOK (applyEdit es op) = true := by
    intro p f hE hf
    cases hR : applyEditE (rootWrap es) op with
    | none => rw [applyEdit_of_none hR]; exact hes
    | some R =>
      have := updAt_ok hroot (fun y y' hy hfy => hf y y' (getAt_ok hroot hy) hfy) (hE.symm.trans hR)
      rw [TreeOK_eq, Bool.and_eq_true] at this
      simp only [applyEdit, hR]; exact this.2
  have site : ∀ (hns : ∀ σ, siteOf es op = some σ → listOK σ.ns = true)
      (hsh : ∀ σ, siteOf es op = some σ → ∀ e l, getAtRoot es σ.q = some e →
        holderList e σ.st = some l → σ.st.idx + σ.d ≤ l.length →
        shapeKept e σ.st (spliceList σ.st.idx σ.d σ.ns l))
      (h1 : ∀ p n, op ≠ .rename p n) (h2 : ∀ p a, op ≠ .setArgs p a),
      listOK (applyEdit es op) = true := by
    intro hns hsh h1 h2
    cases h : siteOf es op with
    | none => rw [siteOf_none h h1 h2]; exact hes
    | some σ =>
      obtain ⟨e, l, he, hl, hd, _⟩ := siteOf_spec h
      apply site_ok h hes (hns σ h)
      intro e' l' he' hl'
      rw [he] at he'; injection he' with he'; subst he'
      rw [hl] at hl'; injection hl' with hl'; subst hl'
      exact hsh σ h e l he hl hd
  cases op with
  | delete p =>
    apply site _ _ (by intros; simp) (by intros; simp)
    · intro σ h
      simp only [siteOf] at h
      split at h
      · split at h
        · injection h with h; subst h; rfl
        · cases h
      · cases h
    · intro σ h e l he hl hd
      have hdd : σ.d = 1 := by
        simp only [siteOf] at h
        split at h
        · split at h
          · injection h with h; subst h; rfl
          · cases h
        · cases h
      apply shapeKept_of_nonempty (getAt_ok hroot he) hl
      intro hnil; subst hnil; simp [hdd] at hd
  | replace p ns =>
    have hns : listOK ns = true := hop
    apply site _ _ (by intros; simp) (by intros; simp)
    · intro σ h
      simp only [siteOf] at h
      split at h
      · split at h
        · injection h with h; subst h; exact hns
        · cases h
      · cases h
    · intro σ h e l he hl hd
      have hdd : σ.d = 1 := by
        simp only [siteOf] at h
        split at h
        · split at h
          · injection h with h; subst h; rfl
          · cases h
        · cases h
      apply shapeKept_of_nonempty (getAt_ok hroot he) hl
      intro hnil; subst hnil; simp [hdd] at hd
  | insert c i ns =>
    have hns : listOK ns = true := hop
    apply site _ _ (by intros; simp) (by intros; simp)
    · intro σ h
      simp only [siteOf] at h
      split at h
      · split at h
        · injection h with h; subst h; exact hns
        · cases h
      · cases h
    · intro σ h e l he hl hd
      simp only [siteOf] at h
      split at h
      · split at h
        · injection h with h; subst h; trivial
        · cases h
      · cases h
  | append c ns =>
    have hns : listOK ns = true := hop
    apply site _ _ (by intros; simp) (by intros; simp)
    · intro σ h
      simp only [siteOf] at h
      split at h
      · split at h
        · injection h with h; subst h; exact hns
        · cases h
      · cases h
    · intro σ h e l he hl hd
      simp only [siteOf] at h
      split at h
      · split at h
        · injection h with h; subst h; trivial
        · cases h
      · cases h
  | setString p s =>
    apply site _ _ (by intros; simp) (by intros; simp)
    · intro σ h
      simp only [siteOf] at h
      split at h
      · cases h
      · split at h
        · split at h
          · injection h with h; subst h; simp [listOK, TreeOK]
          · cases h
        · cases h
    · intro σ h e l he hl hd
      simp only [siteOf] at h
      split at h
      · cases h
      · split at h
        · rename_i y hy
          split at h
          · rename_i st d hs
            injection h with h; subst h
            simp only at he hl hd ⊢
            rw [hy] at he; injection he with he; subst he
            rcases setStringSite_cases hs with h0 | ⟨h0, n, a, b, pos, hy'⟩
            · subst h0; trivial
            · subst h0; subst hy'
              intro a' ha'
              simp only [Expr.args, List.getElem?_cons_zero, Option.some.injEq] at ha'
              subst ha'
              have := hop n a b pos hy
              cases a <;> simp_all [Expr.isGroup, Expr.setBody, argShape]
          · cases h
        · cases h
  | rename p n =>
    by_cases hp : p = []
    · subst hp; rw [applyEdit_of_none (by simp [applyEditE])]; exact hes
    · exact node p (renameE n) (applyEditE_rename n hp) (fun y y' hy h => renameE_ok hy h)
  | setArgs p as =>
    have has : argsOK as = true := hop
    by_cases hp : p = []
    · subst hp; rw [applyEdit_of_none (by simp [applyEditE])]; exact hes
    · apply node p (setArgsE as) (applyEditE_setArgs as hp)
      intro y y' hy h
      cases y <;> simp_all [setArgsE, TreeOK] <;> subst h <;> simp_all [TreeOK]

/-- Whole histories: every op must be `OpOK` for the document it is applied to. -/
def HistOK : List Expr → List EditOp → Prop
  | _, [] => True
  | es, op :: ops => OpOK es op ∧ HistOK (applyEdit es op) ops

theorem edits_ok : ∀ (ops : List EditOp) (es : List Expr), listOK es = true → HistOK es ops →
    listOK (applyEdits es ops) = true := by
  intro ops
  induction ops with
  | nil => intro es hes _; exact hes
  | cons op ops ih =>
    intro es hes h
    exact ih _ (edit_ok hes h.1) h.2

end TexSoup.Edit
