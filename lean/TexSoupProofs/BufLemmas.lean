import TexSoupProofs.BufSpec
/-!
# Helper lemmas for C20: every `Buffer` operation refines the list+index specification
-/
namespace TexSoup
namespace Buf

/-- The underlying sequence. -/
def items (s : BufState) : List Str := s.queue ++ s.rest

/-- The first `n` elements are materialised (or there is nothing left to materialise). -/
def Covers (s : BufState) (n : Nat) : Prop := s.rest = [] ∨ n ≤ s.queue.length

theorem Covers.mono {s : BufState} {n m : Nat} (h : Covers s n) (hm : m ≤ n) : Covers s m := by
  unfold Covers at *
  rcases h with h | h
  · exact Or.inl h
  · exact Or.inr (by omega)

theorem Covers.take {s : BufState} {n : Nat} (h : Covers s n) :
    s.queue.take n = (items s).take n := by
  unfold Covers items at *
  rcases h with h | h
  · simp [h]
  · rw [List.take_append_of_le_length h]

theorem Covers.get {s : BufState} {n k : Nat} (h : Covers s n) (hk : k < n) :
    s.queue[k]? = (items s)[k]? := by
  unfold Covers items at *
  rcases h with h | h
  · simp [h]
  · rw [List.getElem?_append_left (by omega)]

/-- Two states over the same sequence, the second at least as materialised. -/
structure Ext (s s' : BufState) : Prop where
  items_eq : items s' = items s
  len_le : s.queue.length ≤ s'.queue.length

theorem Ext.refl (s : BufState) : Ext s s := ⟨rfl, Nat.le_refl _⟩

theorem Ext.trans {a b c : BufState} (h₁ : Ext a b) (h₂ : Ext b c) : Ext a c :=
  ⟨h₂.items_eq.trans h₁.items_eq, Nat.le_trans h₁.len_le h₂.len_le⟩

theorem Ext.total {s s' : BufState} (h : Ext s s') : total s' = total s := by
  have := congrArg List.length h.items_eq
  simp [items] at this
  simpa [Buf.total] using this

theorem Ext.covers {s s' : BufState} (h : Ext s s') {n : Nat} (hc : Covers s n) :
    Covers s' n := by
  have ht := h.total
  have hl := h.len_le
  unfold Covers Buf.total at *
  rcases hc with hc | hc
  · left
    have : s'.rest.length = 0 := by simp [hc] at ht; omega
    exact List.eq_nil_of_length_eq_zero this
  · right; omega

/-- Changing the cursor does not matter for `Ext`. -/
theorem Ext.withI {s s' : BufState} (h : Ext s s') (i j : Nat) :
    Ext { s with i := i } { s' with i := j } := ⟨h.items_eq, h.len_le⟩

/-! ## `fill` and `next` -/

theorem fill_post (i : Nat) (r q : List Str) :
    (fill i q r).1 ++ (fill i q r).2 = q ++ r ∧ q.length ≤ (fill i q r).1.length ∧
      ((fill i q r).2 = [] ∨ i < (fill i q r).1.length) := by
  induction r generalizing q with
  | nil => simp [fill]
  | cons x r ih =>
    unfold fill
    split
    · obtain ⟨h1, h2, h3⟩ := ih (q ++ [x])
      refine ⟨by simpa using h1, ?_, h3⟩
      simp at h2; omega
    · simp; omega

theorem next_post (s : BufState) :
    Ext s (next s).1 ∧
      ((∃ x, (items s)[s.i]? = some x ∧ (next s).2 = .elem x ∧ (next s).1.i = s.i + 1 ∧
          s.i < (next s).1.queue.length) ∨
       ((items s)[s.i]? = none ∧ (next s).2 = .stopIteration ∧ (next s).1.i = s.i ∧
          (next s).1.rest = [])) := by
  have hf := fill_post s.i s.rest s.queue
  unfold next
  rcases hfe : fill s.i s.queue s.rest with ⟨q, r⟩
  rw [hfe] at hf
  simp only at hf ⊢
  obtain ⟨h1, h2, h3⟩ := hf
  rcases hq : q[s.i]? with _ | x
  · simp only
    have hlen : q.length ≤ s.i := by
      rcases Nat.lt_or_ge s.i q.length with h | h
      · simp [List.getElem?_eq_getElem h] at hq
      · exact h
    have hr : r = [] := by rcases h3 with h | h; exact h; omega
    refine ⟨⟨by simp [items, h1], h2⟩, Or.inr ⟨?_, trivial, trivial, hr⟩⟩
    simp [items, ← h1, hr, hq]
  · simp only
    have hlen : s.i < q.length := by
      rcases Nat.lt_or_ge s.i q.length with h | h
      · exact h
      · simp [List.getElem?_eq_none h] at hq
    refine ⟨⟨by simp [items, h1], h2⟩, Or.inl ⟨x, ?_, rfl, trivial, hlen⟩⟩
    simp only [items, ← h1]
    rw [List.getElem?_append_left hlen, hq]

/-! ## The fill loop of `__getitem__` -/

/-- Enough fuel to run a loop from `s`. -/
def FuelOk (fuel : Nat) (s : BufState) : Prop := 0 < fuel ∧ total s < fuel + s.i

theorem fuelOf_ok (s : BufState) : FuelOk (fuelOf s) s := by
  unfold FuelOk fuelOf; omega

theorem lt_total_of_get {s : BufState} {k : Nat} {x : Str} (h : (items s)[k]? = some x) :
    k < total s := by
  have := (List.getElem?_eq_some_iff.mp h).1
  simpa [items, total] using this

/-- One iteration of the fill loop, unfolded. -/
theorem loopNext_succ (fuel : Nat) (j : Option Nat) (s : BufState) :
    loopNext (fuel + 1) j s =
      if loopCond j s.i then
        match next s with
        | (s', .stopIteration) => some s'
        | (s', _) => loopNext fuel j s'
      else some s := by
  rfl

theorem loopNext_post (fuel : Nat) (j : Option Nat) (s : BufState) (hf : FuelOk fuel s) :
    ∃ s1, loopNext fuel j s = some s1 ∧ Ext s s1 ∧
      (match j with
       | some k => s.i ≤ k → Covers s1 (k + 1)
       | none => s1.rest = []) := by
  induction fuel generalizing s with
  | zero => exact absurd hf.1 (Nat.lt_irrefl 0)
  | succ fuel ih =>
    rw [loopNext_succ]
    by_cases hc : loopCond j s.i = true
    · rw [if_pos hc]
      obtain ⟨hext, hn⟩ := next_post s
      rcases hns : next s with ⟨s', o⟩
      rw [hns] at hext hn
      simp only at hext hn
      rcases hn with ⟨x, hx, ho, hi, hlen⟩ | ⟨hx, ho, hi, hr⟩
      · subst ho
        simp only
        have hlt := lt_total_of_get hx
        have hf' : FuelOk fuel s' := by
          have := hext.total
          unfold FuelOk at *; omega
        obtain ⟨s1, h1, h2, h3⟩ := ih s' hf'
        refine ⟨s1, h1, hext.trans h2, ?_⟩
        cases j with
        | none => exact h3
        | some k =>
          simp only at h3 ⊢
          intro _
          have hik : s.i ≤ k := by simpa [loopCond] using hc
          rcases Nat.lt_or_ge s.i k with hlt' | hge
          · exact h3 (by omega)
          · have hk : k = s.i := by omega
            subst hk
            exact h2.covers (Or.inr (by omega))
      · subst ho
        refine ⟨s', rfl, hext, ?_⟩
        cases j with
        | none => exact hr
        | some k => intro _; exact Or.inl hr
    · rw [if_neg hc]
      refine ⟨s, rfl, Ext.refl s, ?_⟩
      cases j with
      | none => simp [loopCond] at hc
      | some k =>
        simp only at ⊢
        intro h
        simp [loopCond, h] at hc

/-! ## Slicing and indexing -/

/-- The model result `r` matches the specification result `t`: same abstraction, same
output, invariant kept. -/
def Refines (r : BufState × BufOut) (t : Spec × BufOut) : Prop :=
  abs r.1 = t.1 ∧ r.2 = t.2 ∧ Inv r.1

theorem abs_eq (s : BufState) : abs s = ⟨items s, s.i⟩ := rfl

theorem Inv_iff (s : BufState) : Inv s ↔ Covers s s.i := Iff.rfl

theorem pySlice_covers {s : BufState} (a b : Option Nat)
    (h : match b with
         | some k => Covers s k
         | none => s.rest = []) :
    pySlice s.queue a b = pySlice (items s) a b := by
  cases b with
  | none => simp only at h; simp [pySlice, items, h]
  | some k => simp only at h; simp only [pySlice]; rw [h.take]

theorem slice_post (s : BufState) (a b : Option Nat) :
    ∃ s', slice s a b = (s', .joined (join (pySlice s'.queue a b))) ∧ Ext s s' ∧ s'.i = s.i ∧
      (match b with
       | some k => s.i ≤ k → Covers s' (k + 1)
       | none => s'.rest = []) := by
  obtain ⟨s1, h1, h2, h3⟩ := loopNext_post (fuelOf s) b s (fuelOf_ok s)
  refine ⟨{ s1 with i := s.i }, ?_, ⟨h2.items_eq, h2.len_le⟩, rfl, ?_⟩
  · simp [slice, h1]
  · cases b with
    | none => exact h3
    | some k => exact h3

theorem slice_refines (s : BufState) (a b : Option Nat) (hinv : Inv s) :
    Refines (slice s a b) (abs s, .joined (join (pySlice (items s) a b))) := by
  obtain ⟨s', h1, h2, h3, h4⟩ := slice_post s a b
  have hc : Covers s' s.i := h2.covers hinv
  rw [h1]
  refine ⟨by simp [abs_eq, h2.items_eq, h3], ?_, by rw [Inv_iff, h3]; exact hc⟩
  simp only
  rw [pySlice_covers a b, h2.items_eq]
  cases b with
  | none => exact h4
  | some k =>
    simp only at h4 ⊢
    rcases Nat.lt_or_ge k s.i with h | h
    · exact hc.mono (by omega)
    · exact (h4 h).mono (by omega)

theorem getItem_refines (s : BufState) (k : Nat) (hinv : Inv s) :
    Refines (getItem s k)
      (abs s, match (items s)[k]? with
              | some x => .elem x
              | none => .indexError) := by
  obtain ⟨s1, h1, h2, h3⟩ := loopNext_post (fuelOf s) (some k) s (fuelOf_ok s)
  simp only at h3
  have hc : Covers s1 s.i := h2.covers hinv
  have hk : Covers s1 (k + 1) := by
    rcases Nat.lt_or_ge k s.i with h | h
    · exact hc.mono (by omega)
    · exact h3 h
  have hget : s1.queue[k]? = (items s)[k]? := by
    rw [hk.get (Nat.lt_succ_self k), h2.items_eq]
  unfold getItem
  rw [h1]
  simp only [hget]
  have habs : abs { s1 with i := s.i } = abs s := by
    simp [abs_eq, items] at *
    exact h2.items_eq
  have hinv' : Inv { s1 with i := s.i } := hc
  cases (items s)[k]? <;> exact ⟨habs, rfl, hinv'⟩

/-! ## Moves -/

theorem moveFwd_refines (s : BufState) (j : Nat) (_hinv : Inv s) :
    Refines (moveFwd s j) (Spec.fwd (abs s) j) := by
  obtain ⟨s', h1, h2, h3, h4⟩ :=
    slice_post { s with i := s.i + j } (some (s.i + j - j)) (some (s.i + j))
  simp only at h3 h4
  have h4 := h4 (Nat.le_refl _)
  unfold moveFwd
  simp only
  rw [h1]
  have hit : items s' = items s := h2.items_eq
  refine ⟨by simp [abs_eq, Spec.fwd, hit, h3], ?_, by rw [Inv_iff, h3]; exact h4.mono (by omega)⟩
  simp only [Spec.fwd, abs_eq]
  rw [pySlice_covers _ _ (by simpa using h4.mono (Nat.le_succ _)), hit]
  simp [pySlice, List.drop_take]

theorem moveBwd_refines (s : BufState) (j : Nat) (hinv : Inv s) :
    Refines (moveBwd s j) (Spec.bwd (abs s) j) := by
  unfold moveBwd Spec.bwd
  by_cases hj : s.i < j
  · simp [hj, abs_eq]
    exact ⟨rfl, rfl, hinv⟩
  · obtain ⟨s', h1, h2, h3, h4⟩ :=
      slice_post { s with i := s.i - j } (some (s.i - j)) (some (s.i - j + j))
    simp only at h3 h4
    have h4 := h4 (Nat.le_add_right _ _)
    have hit : items s' = items s := h2.items_eq
    simp only [abs_eq, hj, if_false]
    rw [h1]
    refine ⟨by simp [abs_eq, hit, h3], ?_, by rw [Inv_iff, h3]; exact h4.mono (by omega)⟩
    simp only
    rw [pySlice_covers _ _ (by simpa using h4.mono (Nat.le_succ _)), hit]
    simp [pySlice, List.drop_take]

theorem forward_refines (s : BufState) (j : Int) (hinv : Inv s) :
    Refines (forward s j) (Spec.step (abs s) (.forward j)) := by
  show Refines (forward s j) (if j < 0 then Spec.bwd (abs s) (-j).toNat else Spec.fwd (abs s) j.toNat)
  unfold forward
  split
  · exact moveBwd_refines s _ hinv
  · exact moveFwd_refines s _ hinv

theorem backward_refines (s : BufState) (j : Int) (hinv : Inv s) :
    Refines (backward s j) (Spec.step (abs s) (.backward j)) := by
  show Refines (backward s j) (if j < 0 then Spec.fwd (abs s) (-j).toNat else Spec.bwd (abs s) j.toNat)
  unfold backward
  split
  · exact moveFwd_refines s _ hinv
  · exact moveBwd_refines s _ hinv

/-! ## `next`, peeks and tests -/

theorem Refines.elim {r : BufState × BufOut} {t : Spec × BufOut} (h : Refines r t) :
    ∃ s', r = (s', t.2) ∧ abs s' = t.1 ∧ Inv s' := by
  rcases r with ⟨s', o⟩
  exact ⟨s', by rw [show o = t.2 from h.2.1], h.1, h.2.2⟩

theorem abs_eq_iff (a b : BufState) : abs a = abs b ↔ items a = items b ∧ a.i = b.i := by
  simp [abs_eq]

theorem next_refines (s : BufState) (_hinv : Inv s) :
    Refines (next s) (Spec.step (abs s) .next) := by
  obtain ⟨hext, hn⟩ := next_post s
  show Refines (next s)
    (match (items s)[s.i]? with
     | some x => (⟨items s, s.i + 1⟩, .elem x)
     | none => (abs s, .stopIteration))
  rcases hn with ⟨x, hx, ho, hi, hlen⟩ | ⟨hx, ho, hi, hr⟩
  · rw [hx]
    exact ⟨by simp [abs_eq, hext.items_eq, hi], ho, Or.inr (by omega)⟩
  · rw [hx]
    exact ⟨by simp [abs_eq, hext.items_eq, hi], ho, Or.inl hr⟩

theorem Spec.at?_abs (s : BufState) (j : Int) :
    Spec.at? (abs s) j = if (s.i : Int) + j < 0 then none else (items s)[((s.i : Int) + j).toNat]? :=
  rfl

theorem peek_refines (s : BufState) (j : Int) (hinv : Inv s) :
    Refines (peek s j) (Spec.step (abs s) (.peek j)) := by
  show Refines (peek s j)
    (match Spec.at? (abs s) j with
     | some x => (abs s, .elem x)
     | none => (abs s, .none))
  rw [Spec.at?_abs]
  unfold peek
  by_cases hj : (s.i : Int) + j < 0
  · simp only [hj, if_true]
    exact ⟨rfl, rfl, hinv⟩
  · simp only [hj, if_false]
    obtain ⟨s', h1, h2, h3⟩ := (getItem_refines s ((s.i : Int) + j).toNat hinv).elim
    rw [h1]
    simp only at h2 ⊢
    cases (items s)[((s.i : Int) + j).toNat]? <;> exact ⟨h2, rfl, h3⟩

theorem peekRange_refines (s : BufState) (a b : Int) (hinv : Inv s) :
    Refines (peekRange s a b) (Spec.step (abs s) (.peekRange a b)) := by
  show Refines (peekRange s a b)
    (abs s, .joined (join (pySlice (items s) (some ((s.i : Int) + a).toNat)
      (some ((s.i : Int) + b).toNat))))
  unfold peekRange
  have h1 : (max ((s.i : Int) + a) 0).toNat = ((s.i : Int) + a).toNat := by omega
  have h2 : (max ((s.i : Int) + b) 0).toNat = ((s.i : Int) + b).toNat := by omega
  rw [h1, h2]
  exact slice_refines s _ _ hinv

theorem hasNext_refines (s : BufState) (n : Int) (hinv : Inv s) :
    Refines (hasNext s n) (Spec.step (abs s) (.hasNext n)) := by
  obtain ⟨s', h1, h2, h3⟩ := (peek_refines s (n - 1) hinv).elim
  have h1' : peek s (n - 1) = (s',
      (match Spec.at? (abs s) (n - 1) with
       | some x => (abs s, BufOut.elem x)
       | none => (abs s, BufOut.none)).2) := h1
  have h2' : abs s' = (match Spec.at? (abs s) (n - 1) with
       | some x => (abs s, BufOut.elem x)
       | none => (abs s, BufOut.none)).1 := h2
  show Refines (hasNext s n)
    (match Spec.at? (abs s) (n - 1) with
     | some x => (abs s, .bool (!x.isEmpty))
     | none => (abs s, .bool false))
  unfold hasNext
  rcases hat : Spec.at? (abs s) (n - 1) with _ | y <;> rw [hat] at h1' h2' <;> rw [h1'] <;>
    exact ⟨h2', rfl, h3⟩

theorem pySlice_window {α : Type} (l : List α) (i n : Nat) :
    pySlice l (some i) (some (i + n)) = (l.drop i).take n := by
  simp [pySlice, List.drop_take]

theorem startswith_refines (s : BufState) (x : Str) (hinv : Inv s) :
    Refines (startswith s x) (Spec.step (abs s) (.startswith x)) := by
  obtain ⟨s', h1, h2, h3⟩ := (peekRange_refines s 0 (x.length : Int) hinv).elim
  have h1' : peekRange s 0 (x.length : Int) = (s', .joined (join (pySlice (items s)
      (some ((s.i : Int) + 0).toNat) (some ((s.i : Int) + (x.length : Int)).toNat)))) := h1
  have ha : ((s.i : Int) + 0).toNat = s.i := by omega
  have hb : ((s.i : Int) + (x.length : Int)).toNat = s.i + x.length := by omega
  rw [ha, hb, pySlice_window] at h1'
  unfold startswith
  rw [h1']
  exact ⟨h2, rfl, h3⟩

theorem endswith_refines (s : BufState) (x : Str) (hinv : Inv s) :
    Refines (endswith s x) (Spec.step (abs s) (.endswith x)) := by
  obtain ⟨s', h1, h2, h3⟩ := (peekRange_refines s (-(x.length : Int)) 0 hinv).elim
  have h1' : peekRange s (-(x.length : Int)) 0 = (s', .joined (join (pySlice (items s)
      (some ((s.i : Int) + -(x.length : Int)).toNat) (some ((s.i : Int) + 0).toNat)))) := h1
  have ha : ((s.i : Int) + 0).toNat = s.i := by omega
  have hb : ((s.i : Int) + -(x.length : Int)).toNat = s.i - x.length := by omega
  rw [ha, hb] at h1'
  unfold endswith
  rw [h1']
  exact ⟨h2, rfl, h3⟩

/-! ## The scans -/

theorem scan_none {l : List Str} {i : Nat} (cond : List Str) (h : l[i]? = none) :
    Spec.scan cond (l.drop i) = [] := by
  rw [List.drop_eq_nil_of_le (List.getElem?_eq_none_iff.mp h)]
  rfl

theorem drop_of_get {l : List Str} {i : Nat} {x : Str} (h : l[i]? = some x) :
    l.drop i = x :: l.drop (i + 1) := by
  obtain ⟨hlt, hx⟩ := List.getElem?_eq_some_iff.mp h
  rw [List.drop_eq_getElem_cons hlt, hx]

theorem scan_some {l : List Str} {i : Nat} {x : Str} (cond : List Str) (h : l[i]? = some x) :
    Spec.scan cond (l.drop i) =
      if (!x.isEmpty && !memStr x cond) = true then x :: Spec.scan cond (l.drop (i + 1))
      else [] := by
  rw [drop_of_get h]
  simp only [Spec.scan, List.takeWhile_cons]

theorem take_length_takeWhile {α : Type} (p : α → Bool) (l : List α) :
    l.take (l.takeWhile p).length = l.takeWhile p := by
  induction l with
  | nil => rfl
  | cons a l ih =>
    simp only [List.takeWhile_cons]
    split
    · simp [ih]
    · simp

theorem scanLoop_succ (cond : List Str) (fuel : Nat) (c : Str) (n : Nat) (s : BufState) :
    scanLoop cond (fuel + 1) c n s =
      match hasNext s 1 with
      | (s1, .bool true) =>
        match peek s1 0 with
        | (s2, o) =>
          match condOf cond o with
          | none => (s2, o, n)
          | some true => (s2, .joined c, n)
          | some false =>
            match forward s2 1 with
            | (s3, .joined t) => scanLoop cond fuel (c ++ t) (n + 1) s3
            | (s3, e) => (s3, e, n)
      | (s1, .bool false) => (s1, .joined c, n)
      | (s1, e) => (s1, e, n) := rfl

theorem hasNext_one (s : BufState) (hinv : Inv s) :
    ∃ s1, hasNext s 1 = (s1, .bool (match (items s)[s.i]? with
                                     | some x => !x.isEmpty
                                     | none => false)) ∧ abs s1 = abs s ∧ Inv s1 := by
  obtain ⟨s1, h1, h2, h3⟩ := (hasNext_refines s 1 hinv).elim
  have hat : Spec.at? (abs s) (1 - 1) = (items s)[s.i]? := by
    rw [Spec.at?_abs]
    have : ¬ ((s.i : Int) + (1 - 1) < 0) := by omega
    rw [if_neg this]
    congr 1
  have h1' : hasNext s 1 = (s1,
      (match Spec.at? (abs s) (1 - 1) with
       | some x => (abs s, BufOut.bool (!x.isEmpty))
       | none => (abs s, BufOut.bool false)).2) := h1
  have h2' : abs s1 = (match Spec.at? (abs s) (1 - 1) with
       | some x => (abs s, BufOut.bool (!x.isEmpty))
       | none => (abs s, BufOut.bool false)).1 := h2
  rw [hat] at h1' h2'
  refine ⟨s1, ?_, ?_, h3⟩
  · rw [h1']; cases (items s)[s.i]? <;> rfl
  · rw [h2']; cases (items s)[s.i]? <;> rfl

theorem peek_zero (s : BufState) (hinv : Inv s) :
    ∃ s1, peek s 0 = (s1, match (items s)[s.i]? with
                          | some x => .elem x
                          | none => .none) ∧ abs s1 = abs s ∧ Inv s1 := by
  obtain ⟨s1, h1, h2, h3⟩ := (peek_refines s 0 hinv).elim
  have hat : Spec.at? (abs s) 0 = (items s)[s.i]? := by
    rw [Spec.at?_abs]
    have : ¬ ((s.i : Int) + 0 < 0) := by omega
    rw [if_neg this]
    congr 1
  have h1' : peek s 0 = (s1,
      (match Spec.at? (abs s) 0 with
       | some x => (abs s, BufOut.elem x)
       | none => (abs s, BufOut.none)).2) := h1
  have h2' : abs s1 = (match Spec.at? (abs s) 0 with
       | some x => (abs s, BufOut.elem x)
       | none => (abs s, BufOut.none)).1 := h2
  rw [hat] at h1' h2'
  refine ⟨s1, ?_, ?_, h3⟩
  · rw [h1']; cases (items s)[s.i]? <;> rfl
  · rw [h2']; cases (items s)[s.i]? <;> rfl

theorem forward_one (s : BufState) (hinv : Inv s) :
    ∃ s1, forward s 1 = (s1, .joined (join (((items s).drop s.i).take 1))) ∧
      abs s1 = ⟨items s, s.i + 1⟩ ∧ Inv s1 :=
  (moveFwd_refines s 1 hinv).elim

/-- The scan loop passes exactly the specification's run of items. -/
theorem scanLoop_post (cond : List Str) (fuel : Nat) (c : Str) (n : Nat) (s : BufState)
    (hinv : Inv s) (hf : FuelOk fuel s) :
    ∃ s', scanLoop cond fuel c n s =
        (s', .joined (c ++ join (Spec.scan cond ((items s).drop s.i))),
          n + (Spec.scan cond ((items s).drop s.i)).length) ∧
      abs s' = ⟨items s, s.i + (Spec.scan cond ((items s).drop s.i)).length⟩ ∧ Inv s' := by
  induction fuel generalizing c n s with
  | zero => exact absurd hf.1 (Nat.lt_irrefl 0)
  | succ fuel ih =>
    rw [scanLoop_succ]
    obtain ⟨s1, e1, a1, i1⟩ := hasNext_one s hinv
    obtain ⟨hit1, hi1⟩ := (abs_eq_iff _ _).mp a1
    rw [e1]
    rcases hx : (items s)[s.i]? with _ | x
    · simp only [scan_none cond hx]
      exact ⟨s1, by simp [join], by simpa [abs_eq] using a1, i1⟩
    · simp only
      by_cases hemp : x.isEmpty = true
      · simp only [hemp, Bool.not_true]
        rw [scan_some cond hx]
        simp only [hemp, Bool.not_true, Bool.false_and, Bool.false_eq_true, if_false]
        exact ⟨s1, by simp [join], by simpa [abs_eq] using a1, i1⟩
      · have hemp' : x.isEmpty = false := by simpa using hemp
        simp only [hemp', Bool.not_false]
        obtain ⟨s2, e2, a2, i2⟩ := peek_zero s1 i1
        obtain ⟨hit2, hi2⟩ := (abs_eq_iff _ _).mp a2
        rw [e2, hit1, hi1, hx]
        simp only [condOf]
        rw [scan_some cond hx]
        by_cases hm : memStr x cond = true
        · simp only [hm, hemp', Bool.not_true, Bool.and_false, Bool.false_eq_true, if_false]
          refine ⟨s2, by simp [join], ?_, i2⟩
          simp [abs_eq, hit2, hit1, hi2, hi1]
        · have hm' : memStr x cond = false := by simpa using hm
          simp only [hm', hemp', Bool.not_false, Bool.and_true, if_true]
          obtain ⟨s3, e3, a3, i3⟩ := forward_one s2 i2
          rw [e3, hit2, hit1, hi2, hi1, drop_of_get hx]
          have hs3 : items s3 = items s ∧ s3.i = s.i + 1 := by
            have := a3
            simp [abs_eq, hit2, hit1, hi2, hi1] at this
            exact this
          have hlt := lt_total_of_get hx
          have hf3 : FuelOk fuel s3 := by
            have ht : total s3 = total s := by
              have := congrArg List.length hs3.1
              simpa [items, total] using this
            unfold FuelOk at *
            omega
          obtain ⟨s', e', a', i'⟩ := ih (c ++ join (List.take 1 (x :: (items s).drop (s.i + 1))))
            (n + 1) s3 i3 hf3
          rw [hs3.1, hs3.2] at e' a'
          refine ⟨s', ?_, ?_, i'⟩
          · simp only []
            rw [e']
            simp [join, List.append_assoc, Nat.add_assoc, Nat.add_comm 1]
          · rw [a']
            simp [Nat.add_assoc, Nat.add_comm 1]

theorem forwardUntil_refines (s : BufState) (cond : List Str) (hinv : Inv s) :
    Refines (forwardUntil s cond) (Spec.step (abs s) (.forwardUntil cond)) := by
  show Refines (forwardUntil s cond)
    (⟨items s, s.i + (Spec.scan cond ((items s).drop s.i)).length⟩,
      .joined (join (Spec.scan cond ((items s).drop s.i))))
  obtain ⟨s0, e0, a0, i0⟩ := peek_zero s hinv
  obtain ⟨hit0, hi0⟩ := (abs_eq_iff _ _).mp a0
  obtain ⟨s', e', a', i'⟩ := scanLoop_post cond (fuelOf s0) [] 0 s0 i0 (fuelOf_ok s0)
  rw [hit0, hi0] at e' a'
  unfold forwardUntil
  rw [e0]
  simp only
  rw [e']
  exact ⟨a', by simp, i'⟩

theorem numForwardUntil_refines (s : BufState) (cond : List Str) (hinv : Inv s) :
    Refines (numForwardUntil s cond) (Spec.step (abs s) (.numForwardUntil cond)) := by
  show Refines (numForwardUntil s cond)
    (abs s, .nat (Spec.scan cond ((items s).drop s.i)).length)
  obtain ⟨s1, e1, a1, i1⟩ := scanLoop_post cond (fuelOf s) [] 0 s hinv (fuelOf_ok s)
  unfold numForwardUntil
  rw [e1]
  simp only [List.nil_append, Nat.zero_add]
  generalize hr : Spec.scan cond ((items s).drop s.i) = r at *
  have hb : backward s1 (r.length : Int) = moveBwd s1 r.length := by
    unfold backward
    have : ¬ ((r.length : Int) < 0) := by omega
    rw [if_neg this]
    congr 1
  obtain ⟨s2, e2, a2, i2⟩ := (moveBwd_refines s1 r.length i1).elim
  rw [hb, e2]
  rw [a1] at e2 a2 ⊢
  have hle : ¬ (s.i + r.length < r.length) := by omega
  have hsub : s.i + r.length - r.length = s.i := by omega
  simp only [Spec.bwd, hle, if_false, hsub] at a2 ⊢
  have hrun : List.take r.length ((items s).drop s.i) = r := by
    rw [← hr]
    exact take_length_takeWhile _ _
  rw [hrun]
  simp only [if_true]
  exact ⟨by rw [a2]; rfl, rfl, i2⟩

/-! ## All operations -/

theorem step_refines_aux (s : BufState) (op : BufOp) (hinv : Inv s) :
    Refines (step s op) (Spec.step (abs s) op) := by
  cases op with
  | next => exact next_refines s hinv
  | forward j => exact forward_refines s j hinv
  | backward j => exact backward_refines s j hinv
  | peek j => exact peek_refines s j hinv
  | peekRange a b => exact peekRange_refines s a b hinv
  | getItem k =>
    have h := getItem_refines s k hinv
    show Refines (getItem s k)
      (match (items s)[k]? with
       | some x => (abs s, .elem x)
       | none => (abs s, .indexError))
    cases hk : (items s)[k]? <;> rw [hk] at h <;> exact h
  | slice a b => exact slice_refines s a b hinv
  | hasNext n => exact hasNext_refines s n hinv
  | startswith x => exact startswith_refines s x hinv
  | endswith x => exact endswith_refines s x hinv
  | forwardUntil c => exact forwardUntil_refines s c hinv
  | numForwardUntil c => exact numForwardUntil_refines s c hinv
  | position => exact ⟨rfl, rfl, hinv⟩

/-! ## Facts about the specification alone -/

theorem Spec.errors (sp : Spec) (op : BufOp) :
    (Spec.step sp op).2 ≠ .fuel ∧
    ((Spec.step sp op).2 = .indexError → ∃ k, op = .getItem k ∧ sp.items.length ≤ k) ∧
    ((Spec.step sp op).2 = .assertionError →
      ∃ j : Int, (sp.idx : Int) < j ∧ (op = .backward j ∨ op = .forward (-j))) := by
  cases op with
  | forward j =>
    simp only [Spec.step, Spec.fwd, Spec.bwd]
    split <;> (try split) <;> simp
    exact ⟨-j, by omega, by simp⟩
  | backward j =>
    simp only [Spec.step, Spec.fwd, Spec.bwd]
    split <;> (try split) <;> simp
    omega
  | getItem k =>
    simp only [Spec.step]
    split <;> simp
    rename_i h
    exact List.getElem?_eq_none_iff.mp h
  | _ => simp only [Spec.step] <;> (try split) <;> simp

theorem Spec.scope_in_range (sp : Spec) (op : BufOp) (hsp : sp.idx ≤ sp.items.length)
    (hop : Spec.InScope sp op) :
    (Spec.step sp op).1.items = sp.items ∧ (Spec.step sp op).1.idx ≤ sp.items.length := by
  cases op with
  | next =>
    simp only [Spec.step]
    split
    · rename_i x h
      have := (List.getElem?_eq_some_iff.mp h).1
      exact ⟨by first | rfl | trivial, this⟩
    · exact ⟨by first | rfl | trivial, hsp⟩
  | forward j =>
    simp only [Spec.InScope] at hop
    simp only [Spec.step, Spec.fwd, Spec.bwd]
    split <;> (try split) <;> refine ⟨by first | rfl | trivial, ?_⟩ <;> simp only <;> omega
  | backward j =>
    simp only [Spec.InScope] at hop
    simp only [Spec.step, Spec.fwd, Spec.bwd]
    split <;> (try split) <;> refine ⟨by first | rfl | trivial, ?_⟩ <;> simp only <;> omega
  | forwardUntil c =>
    simp only [Spec.step]
    refine ⟨by first | rfl | trivial, ?_⟩
    have h := (List.takeWhile_sublist (l := sp.items.drop sp.idx)
      (fun x => !x.isEmpty && !memStr x c)).length_le
    simp only [List.length_drop] at h
    simp only [Spec.scan]
    omega
  | _ => simp only [Spec.step] <;> (try split) <;> exact ⟨by first | rfl | trivial, hsp⟩

theorem init_inv (src : List Str) : Inv (init src) := Or.inr (Nat.le_refl _)

end Buf
end TexSoup
