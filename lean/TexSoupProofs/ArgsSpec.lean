import TexSoupModel.Args
/-!
# Specification for C18: a Python `list` of argument groups

Written independently of the model's methods: the state is a bare `List Expr`, indices are
normalised by hand, insertion/deletion are `take`/`drop`, `remove` is a three-line recursion.
There is no shadow list here. The only things shared with the model are the vocabulary
(`ArgIn`, `ArgsOp`, `ArgItem`), textual equality (`ser`, which *is* `TexExpr.__eq__`) and the
classifier `isArgObj` ("is a `TexGroup` or `TexCmd`").

Conventions that make a list of groups out of a plain list (from the property):
* an unparsed string `'{..}'`/`'[..]'` denotes the brace/bracket group around its inside,
  any other non-blank string is a `TypeError` and changes nothing;
* a value that is not an argument (a blank string, an object that is neither group nor
  command) is accepted and simply not stored; removing it is `list.remove` of something
  that is not there, unless an item happens to print the same.
-/
namespace TexSoup
namespace ArgsSpec

inductive SpecOut where
  | none
  | item (e : Expr)
  | slice (l : List Expr)
  | string (s : Str)
  | typeError
  | valueError
  | indexError
  deriving Repr, Inhabited

/-- `'[..]'` / `'{..}'` as a group around the inside; anything else is malformed. -/
def specGroup : Str → Option Expr
  | 91 :: t =>
    if t.getLast? = some 93 then some (.group .bracket [.text t.dropLast (-1)] (-1)) else none
  | 123 :: t =>
    if t.getLast? = some 125 then some (.group .brace [.text t.dropLast (-1)] (-1)) else none
  | _ => none

def specStr (s : Str) : Option ArgItem :=
  if isBlank s then some (.ws s) else (specGroup s).map .grp

/-- The value an input denotes; `none` is `TypeError`. A `TexText` object is a `str`. -/
def specVal : ArgIn → Option ArgItem
  | .str s => specStr s
  | .grp (.text s _) => specStr s
  | .grp e => some (.grp e)

/-- The list entry a value contributes, if it is an argument. -/
def specListed : ArgItem → Option Expr
  | .grp e => if isArgObj e then some e else none
  | .ws _ => none

/-- `l.insert(i, e)`. -/
def specInsert (l : List Expr) (i : Int) (e : Expr) : List Expr :=
  let k : Nat := if i < 0 then ((l.length : Int) + i).toNat else min i.toNat l.length
  l.take k ++ e :: l.drop k

/-- `l.remove(x)` for an `x` printing as `t`: drop the first item printing as `t`
(`none` is `ValueError`). -/
def specRemove (t : Str) : List Expr → Option (List Expr)
  | [] => none
  | a :: r => if ser a = t then some r else (specRemove t r).map (a :: ·)

/-- Index of `l[i]`/`l.pop(i)` for a list of length `n`; `none` is `IndexError`. -/
def specIdx (n : Nat) (i : Int) : Option Nat :=
  let j : Int := if i < 0 then i + n else i
  if 0 ≤ j ∧ j < n then some j.toNat else none

/-- One slice bound, normalised (`slice.indices`, step 1). -/
def specBound (n : Nat) (b : Int) : Nat :=
  if b < 0 then (b + n).toNat else min b.toNat n

/-- `l[lo:hi]`. -/
def specSlice (l : List Expr) (lo hi : Option Int) : List Expr :=
  let a := (lo.map (specBound l.length)).getD 0
  let b := (hi.map (specBound l.length)).getD l.length
  (l.drop a).take (b - a)

/-- Insert a value at index `i` if it is an argument. -/
def specInsertVal (l : List Expr) (i : Int) (a : ArgIn) : List Expr × SpecOut :=
  match specVal a with
  | none => (l, .typeError)
  | some it =>
    match specListed it with
    | some e => (specInsert l i e, .none)
    | none => (l, .none)

/-- `for a in as: l.append(a)` – an exception ends the loop. -/
def specExtend (l : List Expr) : List ArgIn → List Expr × SpecOut
  | [] => (l, .none)
  | a :: r =>
    match specInsertVal l l.length a with
    | (l', .none) => specExtend l' r
    | (l', out) => (l', out)

def specStep (l : List Expr) : ArgsOp → List Expr × SpecOut
  | .append a => specInsertVal l l.length a
  | .extend as => specExtend l as
  | .insert i a => specInsertVal l i a
  | .remove a =>
    match specVal a with
    | none => (l, .typeError)
    | some it =>
      match specRemove it.txt l with
      | none => (l, .valueError)
      | some l' => (l', .none)
  | .pop i =>
    match specIdx l.length i with
    | none => (l, .indexError)
    | some k =>
      match l[k]? with
      | none => (l, .indexError)
      | some e => (l.take k ++ l.drop (k + 1), .item e)
  | .reverse => (l.reverse, .none)
  | .clear => ([], .none)
  | .getItem i =>
    match specIdx l.length i with
    | none => (l, .indexError)
    | some k =>
      match l[k]? with
      | none => (l, .indexError)
      | some e => (l, .item e)
  | .slice lo hi => (l, .slice (specSlice l lo hi))
  | .str => (l, .string (l.map ser).flatten)

def specRun (l : List Expr) : List ArgsOp → List Expr × List SpecOut
  | [] => (l, [])
  | op :: ops =>
    let r := specStep l op
    let rs := specRun r.1 ops
    (rs.1, r.2 :: rs.2)

/-! ## Abstraction, invariant, output relation -/

/-- Abstraction function: forget `.all`. -/
def abs (st : ArgsSt) : List Expr := st.lst

/-- The invariant of reachable states: the list holds only group/command objects, and for
every text the list holds at most as many items printing as that text as `.all` does
(every list item has its own textual twin in `.all`; order is *not* related). -/
structure Inv (st : ArgsSt) : Prop where
  args : ∀ e ∈ st.lst, isArgObj e = true
  twins : ∀ t : Str, (st.lst.map ser).count t ≤ (st.all.map ArgItem.txt).count t

/-- How an output of the class relates to the output of the list, given a relation for
returned items. A returned slice must be the sliced list and a well-formed `TexArgs`. -/
def OutRel (itemRel : ArgItem → Expr → Prop) : ArgsOut → SpecOut → Prop
  | .none, .none => True
  | .item it, .item e => itemRel it e
  | .sliceResult st, .slice l => st.lst = l ∧ Inv st
  | .string s, .string s' => s = s'
  | .typeError, .typeError => True
  | .valueError, .valueError => True
  | .indexError, .indexError => True
  | _, _ => False

/-- Output lists related pointwise. -/
def OutsRel (itemRel : ArgItem → Expr → Prop) : List ArgsOut → List SpecOut → Prop
  | [], [] => True
  | o :: os, s :: ss => OutRel itemRel o s ∧ OutsRel itemRel os ss
  | _, _ => False

/-- Returned item and list item print the same (`==` in Python). -/
def SameText (it : ArgItem) (e : Expr) : Prop := it.txt = ser e
/-- Returned item *is* the list item. -/
def SameObj (it : ArgItem) (e : Expr) : Prop := it = .grp e

def isError : ArgsOut → Bool
  | .typeError | .valueError | .indexError => true
  | _ => false

def isExtendOp : ArgsOp → Bool
  | .extend _ => true
  | _ => false

/-! ## The pool of the property: groups made from strings -/

/-- A group as `TexGroup.parse` makes it: one plain string inside, position `-1`. -/
def Plain (e : Expr) : Prop := ∃ k s, e = .group k [.text s (-1)] (-1)

def PlainIn : ArgIn → Prop
  | .str _ => True
  | .grp e => Plain e

def PlainOp : ArgsOp → Prop
  | .append a | .insert _ a | .remove a => PlainIn a
  | .extend as => ∀ a ∈ as, PlainIn a
  | _ => True

def PlainItem : ArgItem → Prop
  | .grp e => Plain e
  | .ws s => isBlank s = true

/-- Every stored object is a plain group and every stored string is blank. -/
structure PlainSt (st : ArgsSt) : Prop where
  lst : ∀ e ∈ st.lst, Plain e
  all : ∀ it ∈ st.all, PlainItem it

end ArgsSpec
end TexSoup
