import TexSoupModel.Args
/-!
# Specification for C18: a Python `list` of argument groups

Written independently of the model's methods: the state is a bare list of objects (plus the
allocation counter that gives identities to the groups made from unparsed strings), indices
are normalised by hand, insertion/deletion are `take`/`drop`, `remove` is a three-line
recursion. There is no shadow list here. The only things shared with the model are the
vocabulary (`Obj`, `ArgIn`, `ArgsOp`, `ArgItem`), textual equality (`ser`, which *is*
`TexExpr.__eq__`) and the classifier `isArgObj` ("is a `TexGroup` or `TexCmd`").

Conventions that make a list of groups out of a plain list (from the property):
* an unparsed string `'{..}'`/`'[..]'` denotes a *new* brace/bracket group around its inside,
  any other non-blank string is a `TypeError` and changes nothing;
* a value that is not an argument (a blank string, an object that is neither group nor
  command) is accepted and simply not stored; removing it is `list.remove` of something
  that is not there, unless an item happens to print the same.
-/
namespace TexSoup
namespace ArgsSpec

inductive SpecOut where
  | none
  | item (o : Obj)
  | slice (l : List Obj)
  | string (s : Str)
  | typeError
  | valueError
  | indexError
  deriving Repr, Inhabited

/-- State of the specification: the list and the allocation counter. -/
abbrev SpecSt := List Obj × Nat

/-- `'[..]'` / `'{..}'` as a group around the inside; anything else is malformed. -/
def specGroup : Str → Option Expr
  | 91 :: t =>
    if t.getLast? = some 93 then some (.group .bracket [.text t.dropLast (-1)] (-1)) else none
  | 123 :: t =>
    if t.getLast? = some 125 then some (.group .brace [.text t.dropLast (-1)] (-1)) else none
  | _ => none

def specStr (next : Nat) (s : Str) : Option (ArgItem × Nat) :=
  if isBlank s then some (.ws s, next)
  else match specGroup s with
    | some e => some (.grp ⟨.made next, e⟩, next + 1)
    | none => none

/-- The value an input denotes and the counter afterwards; `none` is `TypeError`. A
`TexText` object is a `str`. -/
def specVal (next : Nat) : ArgIn → Option (ArgItem × Nat)
  | .str s => specStr next s
  | .grp ⟨_, .text s _⟩ => specStr next s
  | .grp o => some (.grp o, next)

/-- The list entry a value contributes, if it is an argument. -/
def specListed : ArgItem → Option Obj
  | .grp o => if isArgObj o.e then some o else none
  | .ws _ => none

/-- `l.insert(i, o)`. -/
def specInsert (l : List Obj) (i : Int) (o : Obj) : List Obj :=
  let k : Nat := if i < 0 then ((l.length : Int) + i).toNat else min i.toNat l.length
  l.take k ++ o :: l.drop k

/-- `l.remove(x)` for an `x` printing as `t`: drop the first item printing as `t`
(`none` is `ValueError`). -/
def specRemove (t : Str) : List Obj → Option (List Obj)
  | [] => none
  | a :: r => if ser a.e = t then some r else (specRemove t r).map (a :: ·)

/-- Index of `l[i]`/`l.pop(i)` for a list of length `n`; `none` is `IndexError`. -/
def specIdx (n : Nat) (i : Int) : Option Nat :=
  let j : Int := if i < 0 then i + n else i
  if 0 ≤ j ∧ j < n then some j.toNat else none

/-- One slice bound, normalised (`slice.indices`, step 1). -/
def specBound (n : Nat) (b : Int) : Nat :=
  if b < 0 then (b + n).toNat else min b.toNat n

/-- `l[lo:hi]`. -/
def specSlice (l : List Obj) (lo hi : Option Int) : List Obj :=
  let a := (lo.map (specBound l.length)).getD 0
  let b := (hi.map (specBound l.length)).getD l.length
  (l.drop a).take (b - a)

/-- Insert a value at index `i` if it is an argument. -/
def specInsertVal (s : SpecSt) (i : Int) (a : ArgIn) : SpecSt × SpecOut :=
  match specVal s.2 a with
  | none => (s, .typeError)
  | some (it, next') =>
    match specListed it with
    | some o => ((specInsert s.1 i o, next'), .none)
    | none => ((s.1, next'), .none)

/-- `for a in as: l.append(a)` – an exception ends the loop. -/
def specExtend (s : SpecSt) : List ArgIn → SpecSt × SpecOut
  | [] => (s, .none)
  | a :: r =>
    match specInsertVal s s.1.length a with
    | (s', .none) => specExtend s' r
    | (s', out) => (s', out)

def specStep (s : SpecSt) : ArgsOp → SpecSt × SpecOut
  | .append a => specInsertVal s s.1.length a
  | .extend as => specExtend s as
  | .insert i a => specInsertVal s i a
  | .remove a =>
    match specVal s.2 a with
    | none => (s, .typeError)
    | some (it, next') =>
      match specRemove it.txt s.1 with
      | none => ((s.1, next'), .valueError)
      | some l' => ((l', next'), .none)
  | .pop i =>
    match specIdx s.1.length i with
    | none => (s, .indexError)
    | some k =>
      match s.1[k]? with
      | none => (s, .indexError)
      | some o => ((s.1.take k ++ s.1.drop (k + 1), s.2), .item o)
  | .reverse => ((s.1.reverse, s.2), .none)
  | .clear => (([], s.2), .none)
  | .getItem i =>
    match specIdx s.1.length i with
    | none => (s, .indexError)
    | some k =>
      match s.1[k]? with
      | none => (s, .indexError)
      | some o => (s, .item o)
  | .slice lo hi => (s, .slice (specSlice s.1 lo hi))
  | .str => (s, .string (s.1.map fun o => ser o.e).flatten)
  | .extendSlice lo hi => ((s.1 ++ specSlice s.1 lo hi, s.2), .none)
  | .extendSelf => ((s.1 ++ s.1, s.2), .none)

def specRun (s : SpecSt) : List ArgsOp → SpecSt × List SpecOut
  | [] => (s, [])
  | op :: ops =>
    let r := specStep s op
    let rs := specRun r.1 ops
    (rs.1, r.2 :: rs.2)

/-! ## Two lists -/

/-- Specification state for a history over two lists. -/
abbrev SpecPair := SpecSt × SpecSt

/-- Allocation is global: a list's counter is brought up to date before it acts. -/
def specSync (a b : SpecSt) : SpecSt := (a.1, max a.2 b.2)

/-- `l.extend(m)` for two lists is `l ++ m` – the elements of `m` in list order, the same
objects; an operation on one list leaves the other alone. -/
def specStepPair (s : SpecPair) : Args.PairOp → SpecPair × SpecOut
  | .on false op => let r := specStep (specSync s.1 s.2) op; ((r.1, s.2), r.2)
  | .on true op => let r := specStep (specSync s.2 s.1) op; ((s.1, r.1), r.2)
  | .extendBy false => (((s.1.1 ++ s.2.1, max s.1.2 s.2.2), s.2), .none)
  | .extendBy true => ((s.1, (s.2.1 ++ s.1.1, max s.2.2 s.1.2)), .none)

def specRunPair (s : SpecPair) : List Args.PairOp → SpecPair × List SpecOut
  | [] => (s, [])
  | op :: ops =>
    let r := specStepPair s op
    let rs := specRunPair r.1 ops
    (rs.1, r.2 :: rs.2)

/-! ## Abstraction, invariant, output relation -/

/-- Abstraction function: forget `.all`. -/
def abs (st : ArgsSt) : SpecSt := (st.lst, st.next)

def absPair (s : Args.PairSt) : SpecPair := (abs s.tgt, abs s.oth)

/-- The invariant of reachable states: the list holds only group/command objects, and
`.all` contains every list element *as an object*: for every identity, the list holds that
object at most as often as `.all` does (an object may be in the list several times; order is
*not* related). Nothing is said about texts – which is what makes the book-keeping immune
to later edits of an argument's contents. -/
structure Inv (st : ArgsSt) : Prop where
  args : ∀ o ∈ st.lst, isArgObj o.e = true
  objs : ∀ id : Oid, st.lst.countP (fun o => o.id == id) ≤ st.all.countP (ArgItem.isObj id)

def InvPair (s : Args.PairSt) : Prop := Inv s.tgt ∧ Inv s.oth

/-- How an output of the class relates to the output of the list, given a relation for
returned items. A returned slice must be the sliced list and a well-formed `TexArgs`. -/
def OutRel (itemRel : ArgItem → Obj → Prop) : ArgsOut → SpecOut → Prop
  | .none, .none => True
  | .item it, .item o => itemRel it o
  | .sliceResult st, .slice l => st.lst = l ∧ Inv st
  | .string s, .string s' => s = s'
  | .typeError, .typeError => True
  | .valueError, .valueError => True
  | .indexError, .indexError => True
  | _, _ => False

/-- Output lists related pointwise. -/
def OutsRel (itemRel : ArgItem → Obj → Prop) : List ArgsOut → List SpecOut → Prop
  | [], [] => True
  | o :: os, s :: ss => OutRel itemRel o s ∧ OutsRel itemRel os ss
  | _, _ => False

/-- Returned item and list item print the same (`==` in Python). -/
def SameText (it : ArgItem) (o : Obj) : Prop := it.txt = ser o.e
/-- Returned item *is* the list item (identity and value). -/
def SameObj (it : ArgItem) (o : Obj) : Prop := it = .grp o

def isError : ArgsOut → Bool
  | .typeError | .valueError | .indexError => true
  | _ => false

def isExtendOp : ArgsOp → Bool
  | .extend _ => true
  | _ => false

/-! ## The pool of the property: groups made from strings -/

/-- A group as `TexGroup.parse` makes it: one plain string inside, position `-1`. -/
def Plain (e : Expr) : Prop := ∃ k s, e = .group k [.text s (-1)] (-1)

def PlainIn : ArgIn → Prop
  | .str _ => True
  | .grp o => Plain o.e

def PlainOp : ArgsOp → Prop
  | .append a | .insert _ a | .remove a => PlainIn a
  | .extend as => ∀ a ∈ as, PlainIn a
  | _ => True

def PlainItem : ArgItem → Prop
  | .grp o => Plain o.e
  | .ws s => isBlank s = true

/-- Every stored object is a plain group and every stored string is blank. -/
structure PlainSt (st : ArgsSt) : Prop where
  lst : ∀ o ∈ st.lst, Plain o.e
  all : ∀ it ∈ st.all, PlainItem it

end ArgsSpec
end TexSoup
