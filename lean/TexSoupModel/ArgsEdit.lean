import TexSoupModel.Edit
import TexSoupModel.Args
/-!
# In-place operations on a node's argument list, as tree edits

`node.args.append(x)`, `.insert(i, x)`, `.pop(i)`, `.remove(node.args[i])`, `.reverse()`,
`.clear()`, `node.args = node.args[lo:hi]`, `node.args = TexArgs([node.args[i] for i in idx])`
and the self-assignment forms `a = node.args; <edit a in place>; node.args = a` all leave the
node with the argument list that the corresponding operation of a plain Python `list` yields
(that `TexArgs` refines `list` is property C18, `TexSoupModel/Args.lean`).  On the tree this is
`applyEdit es (.setArgs p l)` with `l` the new list; a list operation that raises
(`IndexError`, `ValueError`) leaves the tree as it is.

Only the list proper is modelled here (`str(args)`, the canonical tree); the shadow list
`.all` is the subject of `Args.lean`.
-/
namespace TexSoup

/-- A list operation in the vocabulary of edit histories.  New elements are already coerced
(`TexArgs.__coerce`); objects that `TexArgs` keeps out of the list proper (whitespace, anything
that is neither a group nor a command) are dropped by the caller. -/
inductive ListOp where
  | extend (xs : List Expr)        -- append(x) = extend [x]
  | insert (i : Int) (x : Expr)
  | pop (i : Int)
  | removeAt (i : Int)             -- args.remove(args[i]): the first argument with that text
  | set (i : Int) (x : Expr)       -- args[i] = x
  | reverse
  | clear
  | slice (lo hi : Option Int)     -- args[lo:hi] (a bound may be omitted)
  | perm (idx : List Nat)          -- [args[i] for i in idx]
  | same                           -- the list itself put back
  | guard (g r : ListOp)           -- `g` is carried out on something else and must not raise; result `r`
  | within (lo hi : Option Int) (k : ListOp)   -- `k` carried out on the copy args[lo:hi]; its result
  deriving Repr

/-- The operation on a plain Python list; `none` = the operation raises.  A slice is a copy:
`keep = args[lo:hi]; <g on args>; args = keep` is `guard g (slice lo hi)`, and
`keep = args[lo:hi]; <k on keep>` leaves the list alone (`guard (within lo hi k) same`) until
`args = keep` (`within lo hi k`). -/
def ListOp.apply : ListOp → List Expr → Option (List Expr)
  | .extend xs, l => some (l ++ xs)
  | .insert i x, l => some (pyInsert l i x)
  | .pop i, l => (pyIndex l.length i).map l.eraseIdx
  | .removeAt i, l => match pyGet l i with
    | some a => (idxOfTxt ser (ser a) l).map l.eraseIdx
    | none => none
  | .set i x, l => (pyIndex l.length i).map (fun k => l.set k x)
  | .reverse, l => some l.reverse
  | .clear, _ => some []
  | .slice lo hi, l => some (pySlice l lo hi)
  | .perm idx, l => idx.mapM (fun i => l[i]?)
  | .same, l => some l
  | .guard g r, l => match g.apply l with
    | some _ => r.apply l
    | none => none
  | .within lo hi k, l => k.apply (pySlice l lo hi)

/-- The edit that the operation amounts to on the current document (`none`: no such node, or
the list operation raises). -/
def argsOpEdit (es : List Expr) (p : Path) (op : ListOp) : Option EditOp :=
  match getAtRoot es p with
  | some y => match op.apply y.args with
    | some l => some (.setArgs p l)
    | none => none
  | none => none

/-- An in-place argument-list operation on the node at `p`. -/
def applyArgsOp (es : List Expr) (p : Path) (op : ListOp) : List Expr :=
  match argsOpEdit es p op with
  | some e => applyEdit es e
  | none => es

/-! ## `insert` with a Python index -/

/-- The index at which `container.insert(i, ..)` puts its pieces into a content list of
length `n`: resolved once, as `list.insert` does (`max(0, n + i)` for a negative `i`,
`min(i, n)` otherwise); all pieces go there, in order: the splice `l[i:i] = pieces`. -/
def pyInsertIndex (n : Nat) (i : Int) : Nat := pyClampInsert n i

/-- `container.insert(i, *ns)` for any integer `i`, as an edit of the current document
(`none`: no node at `c`). -/
def insertEdit (es : List Expr) (c : Path) (i : Int) (ns : List Expr) : Option EditOp :=
  match getAtRoot es c with
  | some y => some (.insert c (pyInsertIndex y.body.length i) ns)
  | none => none

end TexSoup
