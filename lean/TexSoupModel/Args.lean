import TexSoupModel.Tree
/-!
# Model of `class TexArgs(list)` (`TexSoup/data.py`)

A `TexArgs` is a Python `list` (the argument groups, field `lst`) with a shadow list
`.all` (field `all`) that additionally holds whitespace strings and any other object that
was handed in but is neither a `TexGroup` nor a `TexCmd`. The model follows the code as it
is, `.all` book-keeping included; an exception is an output (`typeError`, `valueError`,
`indexError`) returned together with the state *as it is at the raise*, so partial
mutation is visible.

Equality of items is the implementation's: `TexExpr.__eq__` is `str(a) == str(b)`, and a
whitespace string compared with an expression ends in the same test through the reflected
`__eq__`; two strings compare as strings. So `list.index`, `list.remove` look for the
first item with equal *text* (`ArgItem.txt`). Python's identity short cut (`a is b`) never
changes the answer, because identical objects have equal text.

Objects: the model has no object identity. `ArgIn.grp e` is "the object `e`"; a `TexText`
object is a `str` subclass and is treated by `__coerce` exactly as the string it holds
(the only difference, invisible in `str`, is that a whitespace `TexText` is stored in
`.all` as that object rather than as a plain `str`).
-/
namespace TexSoup

/-- An entry of `.all`: an expression object or a whitespace string. -/
inductive ArgItem where
  | grp (e : Expr)
  | ws (s : Str)
  deriving Repr, Inhabited

/-- `str(item)` – the text all comparisons go by. -/
def ArgItem.txt : ArgItem → Str
  | .grp e => ser e
  | .ws s => s

/-- State of a `TexArgs`: the list itself and `.all`. -/
structure ArgsSt where
  lst : List Expr
  all : List ArgItem
  deriving Repr, Inhabited

/-- `TexArgs()`. -/
def ArgsSt.empty : ArgsSt := ⟨[], []⟩

/-- What a caller hands to `append/insert/remove`: an object or an unparsed `str`. -/
inductive ArgIn where
  | grp (e : Expr)
  | str (s : Str)
  deriving Repr, Inhabited

inductive ArgsOp where
  | append (a : ArgIn)
  | extend (as : List ArgIn)
  | insert (i : Int) (a : ArgIn)
  | remove (a : ArgIn)
  /-- `pop(i)`; `pop()` is `pop(-1)`. -/
  | pop (i : Int)
  | reverse
  | clear
  /-- `args[i]`. -/
  | getItem (i : Int)
  /-- `args[lo:hi]` (`none` = bound left out). -/
  | slice (lo hi : Option Int)
  /-- `str(args)`. -/
  | str
  deriving Repr, Inhabited

inductive ArgsOut where
  | none
  | item (it : ArgItem)
  /-- the new `TexArgs` a slice returns -/
  | sliceResult (st : ArgsSt)
  | string (s : Str)
  | typeError
  | valueError
  | indexError
  deriving Repr, Inhabited

/-! ## Built-in `list` behaviour used by the class (`super()` calls and calls on `.all`) -/

/-- Index normalisation of `list.insert(i, x)`: negative indices count from the end,
everything is clamped into `0..n`. -/
def pyClampInsert (n : Nat) (i : Int) : Nat :=
  if i < 0 then (max ((n : Int) + i) 0).toNat else min i.toNat n

/-- `list.insert(i, x)`. -/
def pyInsert {α : Type} (l : List α) (i : Int) (x : α) : List α :=
  l.insertIdx (pyClampInsert l.length i) x

/-- Index normalisation of `l[i]` / `l.pop(i)`: `none` is `IndexError`. -/
def pyIndex (n : Nat) (i : Int) : Option Nat :=
  if i < 0 then (if -i ≤ (n : Int) then some ((n : Int) + i).toNat else none)
  else (if i < (n : Int) then some i.toNat else none)

/-- `l[i]`. -/
def pyGet {α : Type} (l : List α) (i : Int) : Option α :=
  match pyIndex l.length i with
  | some k => l[k]?
  | none => none

/-- One bound of `slice.indices(n)` for step 1, given the default for a missing bound. -/
def pySliceBound (n : Nat) (dflt : Nat) : Option Int → Nat
  | none => dflt
  | some i => if i < 0 then (max ((n : Int) + i) 0).toNat else min i.toNat n

/-- `l[lo:hi]`. -/
def pySlice {α : Type} (l : List α) (lo hi : Option Int) : List α :=
  let a := pySliceBound l.length 0 lo
  let b := pySliceBound l.length l.length hi
  (l.take b).drop a

/-- `l.index(x)` under textual equality: position of the first item whose text is `t`
(`none` is `ValueError`). -/
def idxOfTxt {α : Type} (f : α → Str) (t : Str) : List α → Option Nat
  | [] => none
  | a :: r => if f a = t then some 0 else (idxOfTxt f t r).map (· + 1)

/-! ## `TexGroup.parse` and `TexArgs.__coerce` -/

/-- `s.endswith(p)`. -/
def endsWith (p s : Str) : Bool := isPrefix p.reverse s.reverse

/-- `TexGroup.parse(s)`: `for arg in arg_type: if s.startswith(arg.begin) and
s.endswith(arg.end): return arg(s[len(arg.begin):-len(arg.end)])`; `none` is the
`TypeError` after the loop. The new group has the plain string as its single content and
position `-1`. -/
def parseGroupWith : List GKind → Str → Option Expr
  | [], _ => none
  | k :: ks, s =>
    if isPrefix k.open s && endsWith k.close s then
      some (.group k [.text ((s.take (s.length - k.close.length)).drop k.open.length) (-1)] (-1))
    else parseGroupWith ks s

def parseGroup (s : Str) : Option Expr := parseGroupWith allGKinds s

/-- `__coerce` on a `str`: whitespace stays, everything else must parse as a group
(`none` is `TypeError`). -/
def coerceStr (s : Str) : Option ArgItem :=
  if isBlank s then some (.ws s) else (parseGroup s).map .grp

/-- `self.__coerce(arg)` (`none` is `TypeError`). -/
def coerce : ArgIn → Option ArgItem
  | .str s => coerceStr s
  | .grp (.text s _) => coerceStr s      -- `TexText` is a `str`
  | .grp e => some (.grp e)

/-- `isinstance(arg, (TexGroup, TexCmd))`. -/
def isArgObj : Expr → Bool
  | .group _ _ _ => true
  | .cmd _ _ _ _ => true
  | _ => false

/-- The item goes into the list proper only if it is a group or command object. -/
def listed : ArgItem → Option Expr
  | .grp e => if isArgObj e then some e else none
  | .ws _ => none

/-! ## The methods -/

namespace Args

/-- Second half of `insert`, after `super().insert`: the book-keeping on `.all`.
`lst` is the list *after* the insertion, `i` the index variable at that point.

```python
if len(self) <= 1:
    self.all.append(arg)
else:
    if i > len(self):
        i = len(self) - 1
    before = self[i - 1]                       # IndexError possible
    index_before = self.all.index(before)      # ValueError possible
    self.all.insert(index_before + 1, arg)
``` -/
def bookkeep (lst : List Expr) (all : List ArgItem) (i : Int) (it : ArgItem) :
    List ArgItem × ArgsOut :=
  if lst.length ≤ 1 then (all ++ [it], .none)
  else
    let i : Int := if i > (lst.length : Int) then (lst.length : Int) - 1 else i
    match pyGet lst (i - 1) with
    | none => (all, .indexError)
    | some before =>
      match idxOfTxt ArgItem.txt (ser before) all with
      | none => (all, .valueError)
      | some j => (pyInsert all ((j : Int) + 1) it, .none)

/-- `insert(i, arg)`: coerce (a `TypeError` leaves everything untouched), clamp `i` like
`list.insert`, insert into the list if `arg` is a group/command, then do the book-keeping. -/
def insert (st : ArgsSt) (i : Int) (a : ArgIn) : ArgsSt × ArgsOut :=
  match coerce a with
  | none => (st, .typeError)
  | some it =>
    let n : Int := st.lst.length
    let i : Int := if i < 0 then max (n + i) 0 else min i n
    let lst' := match listed it with
      | some e => pyInsert st.lst i e
      | none => st.lst
    let r := bookkeep lst' st.all i it
    (⟨lst', r.1⟩, r.2)

/-- `append(arg)` is `self.insert(len(self), arg)`. -/
def append (st : ArgsSt) (a : ArgIn) : ArgsSt × ArgsOut := insert st st.lst.length a

/-- `extend(args)`: `for arg in args: self.append(arg)` – stops at the first exception,
keeping what was appended before. -/
def extend (st : ArgsSt) : List ArgIn → ArgsSt × ArgsOut
  | [] => (st, .none)
  | a :: r =>
    match append st a with
    | (st', .none) => extend st' r
    | (st', out) => (st', out)

/-- `remove(item)`: coerce; `self.all.remove(item)`; `super().remove(item)`. Both removals
delete the first textually equal entry and raise `ValueError` if there is none – the
second one after `.all` has already been changed. -/
def remove (st : ArgsSt) (a : ArgIn) : ArgsSt × ArgsOut :=
  match coerce a with
  | none => (st, .typeError)
  | some it =>
    match idxOfTxt ArgItem.txt it.txt st.all with
    | none => (st, .valueError)
    | some j =>
      let all' := st.all.eraseIdx j
      match idxOfTxt ser it.txt st.lst with
      | none => (⟨st.lst, all'⟩, .valueError)
      | some k => (⟨st.lst.eraseIdx k, all'⟩, .none)

/-- `pop(i)`: `item = super().pop(i)` (`IndexError`, nothing changed);
`j = self.all.index(item)` (`ValueError`, list already shortened); `self.all.pop(j)` – the
first textual twin leaves `.all`; `return item` – the list item itself. -/
def pop (st : ArgsSt) (i : Int) : ArgsSt × ArgsOut :=
  match pyIndex st.lst.length i with
  | none => (st, .indexError)
  | some k =>
    match st.lst[k]? with
    | none => (st, .indexError)        -- unreachable: `k < len`
    | some item =>
      let lst' := st.lst.eraseIdx k
      match idxOfTxt ArgItem.txt (ser item) st.all with
      | none => (⟨lst', st.all⟩, .valueError)
      | some j => (⟨lst', st.all.eraseIdx j⟩, .item (.grp item))

def reverse (st : ArgsSt) : ArgsSt × ArgsOut := (⟨st.lst.reverse, st.all.reverse⟩, .none)

def clear (_ : ArgsSt) : ArgsSt × ArgsOut := (⟨[], []⟩, .none)

/-- `args[i]`. -/
def getItem (st : ArgsSt) (i : Int) : ArgsSt × ArgsOut :=
  match pyGet st.lst i with
  | none => (st, .indexError)
  | some e => (st, .item (.grp e))

/-- `TexArgs(items)`: `extend` on the empty state. -/
def construct (items : List ArgIn) : ArgsSt × ArgsOut := extend .empty items

/-- `args[lo:hi]`: the built-in slice, wrapped by `TexArgs(value)`. An exception in the
constructor would propagate (it cannot happen for items that came out of a list). -/
def slice (st : ArgsSt) (lo hi : Option Int) : ArgsSt × ArgsOut :=
  match construct ((pySlice st.lst lo hi).map .grp) with
  | (st', .none) => (st, .sliceResult st')
  | (_, out) => (st, out)

/-- `str(args)`: `''.join(map(str, self))`. -/
def str (st : ArgsSt) : ArgsSt × ArgsOut := (st, .string (serL st.lst))

def step (st : ArgsSt) : ArgsOp → ArgsSt × ArgsOut
  | .append a => append st a
  | .extend as => extend st as
  | .insert i a => insert st i a
  | .remove a => remove st a
  | .pop i => pop st i
  | .reverse => reverse st
  | .clear => clear st
  | .getItem i => getItem st i
  | .slice lo hi => slice st lo hi
  | .str => str st

/-- Run a history from a state; outputs in order. A Python caller that catches the
exceptions sees exactly this. -/
def run (st : ArgsSt) : List ArgsOp → ArgsSt × List ArgsOut
  | [] => (st, [])
  | op :: ops =>
    let r := step st op
    let rs := run r.1 ops
    (rs.1, r.2 :: rs.2)

namespace Legacy
/-- `insert` before the repair of F9: no clamping, the raw `i` goes to `super().insert`
(which clamps internally) *and* to the book-keeping. -/
def insert (st : ArgsSt) (i : Int) (a : ArgIn) : ArgsSt × ArgsOut :=
  match coerce a with
  | none => (st, .typeError)
  | some it =>
    let lst' := match listed it with
      | some e => pyInsert st.lst i e
      | none => st.lst
    let r := bookkeep lst' st.all i it
    (⟨lst', r.1⟩, r.2)

/-- `pop` before its repair: `item = super().pop(i)` (`IndexError`, nothing changed);
`j = self.all.index(item)` (`ValueError`, list already shortened);
`return self.all.pop(j)` – the entry *of `.all`*, i.e. the first textual twin. -/
def pop (st : ArgsSt) (i : Int) : ArgsSt × ArgsOut :=
  match pyIndex st.lst.length i with
  | none => (st, .indexError)
  | some k =>
    match st.lst[k]? with
    | none => (st, .indexError)        -- unreachable: `k < len`
    | some item =>
      let lst' := st.lst.eraseIdx k
      match idxOfTxt ArgItem.txt (ser item) st.all with
      | none => (⟨lst', st.all⟩, .valueError)
      | some j =>
        match st.all[j]? with
        | none => (⟨lst', st.all⟩, .valueError)     -- unreachable: `j < len`
        | some r => (⟨lst', st.all.eraseIdx j⟩, .item r)
end Legacy

end Args
end TexSoup
