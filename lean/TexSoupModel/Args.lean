import TexSoupModel.Tree
/-!
# Model of `class TexArgs(list)` (`TexSoup/data.py`)

A `TexArgs` is a Python `list` (the argument groups, field `lst`) with a shadow list
`.all` (field `all`) that additionally holds whitespace strings and any other object that
was handed in but is neither a `TexGroup` nor a `TexCmd`. The model follows the code as it
is, `.all` book-keeping included; an exception is an output (`typeError`, `valueError`,
`indexError`) returned together with the state *as it is at the raise*, so partial
mutation would be visible.

**Identity.** Since the repair "TexArgs kept its shadow list `.all` in step by text, not by
object" the class looks its arguments up in `.all` *by identity* (`other is item`) and only
falls back to equality. So objects carry an identity here: an `Obj` is an `Expr` together
with an `Oid`. Objects handed in by the caller have the identity the caller gives them
(`Oid.ext`; the same object may be handed in – and be in the list – several times); objects
the class makes itself (`TexGroup.parse` of an unparsed string) get `Oid.made n` from the
allocation counter `next` of the state, so they are distinct from each other.

**Equality** is the implementation's: `TexExpr.__eq__` is `str(a) == str(b)`, and a
whitespace string compared with an expression ends in the same test through the reflected
`__eq__`; two strings compare as strings. So `list.index` looks for the first item with
equal *text* (`ArgItem.txt`); Python's identity short cut inside `list.index` never changes
that answer, because an identical object has equal text.

A `TexText` object is a `str` subclass and is treated by `__coerce` exactly as the string it
holds (the only difference, invisible in `str`, is that a whitespace `TexText` is stored in
`.all` as that object rather than as a plain `str`; it is never looked up).
-/
namespace TexSoup

/-- Object identity (`id(obj)`): given by the caller, or allocated by the class. -/
inductive Oid where
  | ext (n : Nat)
  | made (n : Nat)
  deriving DecidableEq, Repr, Inhabited

/-- An expression object: identity and value. -/
structure Obj where
  id : Oid
  e : Expr
  deriving Repr, Inhabited

/-- An entry of `.all`: an expression object or a whitespace string. -/
inductive ArgItem where
  | grp (o : Obj)
  | ws (s : Str)
  deriving Repr, Inhabited

/-- `str(item)` – the text `==` goes by. -/
def ArgItem.txt : ArgItem → Str
  | .grp o => ser o.e
  | .ws s => s

/-- `entry is obj` for the object with identity `id`. -/
def ArgItem.isObj (id : Oid) : ArgItem → Bool
  | .grp o => o.id == id
  | .ws _ => false

/-- State of a `TexArgs`: the list itself, `.all`, and the allocation counter for the
objects `TexGroup.parse` creates. -/
structure ArgsSt where
  lst : List Obj
  all : List ArgItem
  next : Nat
  deriving Repr, Inhabited

/-- `TexArgs()` (with the allocation counter at `n`). -/
def ArgsSt.empty (n : Nat := 0) : ArgsSt := ⟨[], [], n⟩

/-- What a caller hands to `append/insert/remove`: an object or an unparsed `str`. -/
inductive ArgIn where
  | grp (o : Obj)
  | str (s : Str)
  deriving Repr, Inhabited

inductive ArgsOp where
  | append (a : ArgIn)
  | extend (as : List ArgIn)
  | insert (i : Int) (a : ArgIn)
  | remove (a : ArgIn)
  /-- `pop(i)`; `pop()` is `pop(-1)`. -/
  | pop (i : Int)
  | reverse
  | clear
  /-- `args[i]`. -/
  | getItem (i : Int)
  /-- `args[lo:hi]` (`none` = bound left out). -/
  | slice (lo hi : Option Int)
  /-- `str(args)`. -/
  | str
  /-- `args.extend(args[lo:hi])`: extend by a `TexArgs` object, here the list's own slice. -/
  | extendSlice (lo hi : Option Int)
  /-- `args.extend(args)`: extend by the list itself. -/
  | extendSelf
  deriving Repr, Inhabited

inductive ArgsOut where
  | none
  | item (it : ArgItem)
  /-- the new `TexArgs` a slice returns -/
  | sliceResult (st : ArgsSt)
  | string (s : Str)
  | typeError
  | valueError
  | indexError
  deriving Repr, Inhabited

/-! ## Built-in `list` behaviour used by the class (`super()` calls and calls on `.all`) -/

/-- Index normalisation of `list.insert(i, x)`: negative indices count from the end,
everything is clamped into `0..n`. -/
def pyClampInsert (n : Nat) (i : Int) : Nat :=
  if i < 0 then (max ((n : Int) + i) 0).toNat else min i.toNat n

/-- `list.insert(i, x)`. -/
def pyInsert {α : Type} (l : List α) (i : Int) (x : α) : List α :=
  l.insertIdx (pyClampInsert l.length i) x

/-- Index normalisation of `l[i]` / `l.pop(i)`: `none` is `IndexError`. -/
def pyIndex (n : Nat) (i : Int) : Option Nat :=
  if i < 0 then (if -i ≤ (n : Int) then some ((n : Int) + i).toNat else none)
  else (if i < (n : Int) then some i.toNat else none)

/-- `l[i]`. -/
def pyGet {α : Type} (l : List α) (i : Int) : Option α :=
  match pyIndex l.length i with
  | some k => l[k]?
  | none => none

/-- One bound of `slice.indices(n)` for step 1, given the default for a missing bound. -/
def pySliceBound (n : Nat) (dflt : Nat) : Option Int → Nat
  | none => dflt
  | some i => if i < 0 then (max ((n : Int) + i) 0).toNat else min i.toNat n

/-- `l[lo:hi]`. -/
def pySlice {α : Type} (l : List α) (lo hi : Option Int) : List α :=
  let a := pySliceBound l.length 0 lo
  let b := pySliceBound l.length l.length hi
  (l.take b).drop a

/-- `l.index(x)` under textual equality: position of the first item whose text is `t`
(`none` is `ValueError`). -/
def idxOfTxt {α : Type} (f : α → Str) (t : Str) : List α → Option Nat
  | [] => none
  | a :: r => if f a = t then some 0 else (idxOfTxt f t r).map (· + 1)

/-- Position of the first entry of `.all` that *is* the object with identity `id`. -/
def idxOfId (id : Oid) : List ArgItem → Option Nat
  | [] => none
  | a :: r => if a.isObj id then some 0 else (idxOfId id r).map (· + 1)

/-! ## `TexGroup.parse` and `TexArgs.__coerce` -/

/-- `s.endswith(p)`. -/
def endsWith (p s : Str) : Bool := isPrefix p.reverse s.reverse

/-- `TexGroup.parse(s)`: `for arg in arg_type: if s.startswith(arg.begin) and
s.endswith(arg.end): return arg(s[len(arg.begin):-len(arg.end)])`; `none` is the
`TypeError` after the loop. The new group has the plain string as its single content and
position `-1`. -/
def parseGroupWith : List GKind → Str → Option Expr
  | [], _ => none
  | k :: ks, s =>
    if isPrefix k.open s && endsWith k.close s then
      some (.group k [.text ((s.take (s.length - k.close.length)).drop k.open.length) (-1)] (-1))
    else parseGroupWith ks s

def parseGroup (s : Str) : Option Expr := parseGroupWith allGKinds s

/-- `__coerce` on a `str`: whitespace stays, everything else must parse as a group – a new
object, which takes the next identity (`none` is `TypeError`). Returns the value and the
allocation counter afterwards. -/
def coerceStr (next : Nat) (s : Str) : Option (ArgItem × Nat) :=
  if isBlank s then some (.ws s, next)
  else (parseGroup s).map fun e => (.grp ⟨.made next, e⟩, next + 1)

/-- `self.__coerce(arg)` (`none` is `TypeError`). -/
def coerce (next : Nat) : ArgIn → Option (ArgItem × Nat)
  | .str s => coerceStr next s
  | .grp ⟨_, .text s _⟩ => coerceStr next s      -- `TexText` is a `str`
  | .grp o => some (.grp o, next)

/-- `isinstance(arg, (TexGroup, TexCmd))`. -/
def isArgObj : Expr → Bool
  | .group _ _ _ => true
  | .cmd _ _ _ _ => true
  | _ => false

/-- The item goes into the list proper only if it is a group or command object. -/
def listed : ArgItem → Option Obj
  | .grp o => if isArgObj o.e then some o else none
  | .ws _ => none

/-- `self.all.index(item)`: the first textually equal entry (`none` is `ValueError`). -/
def indexTxt (o : Obj) (all : List ArgItem) : Option Nat := idxOfTxt ArgItem.txt (ser o.e) all

/-- `self.__index_all(item)`: the entry that *is* `item` if there is one, else
`self.all.index(item)` (`none` is its `ValueError`). -/
def indexAll (o : Obj) (all : List ArgItem) : Option Nat :=
  match idxOfId o.id all with
  | some j => some j
  | none => indexTxt o all

/-! ## The methods -/

namespace Args

/-- Second half of `insert`, after `super().insert`: the book-keeping on `.all`.
`lst` is the list *after* the insertion, `i` the index variable at that point, `find` the
look-up in `.all` (`__index_all` now, `self.all.index` before the repair).

```python
if len(self) <= 1:
    self.all.append(arg)
else:
    if i > len(self):
        i = len(self) - 1
    before = self[i - 1]                            # IndexError possible
    index_before = self.__index_all(before)         # ValueError possible
    self.all.insert(index_before + 1, arg)
``` -/
def bookkeepWith (find : Obj → List ArgItem → Option Nat) (lst : List Obj)
    (all : List ArgItem) (i : Int) (it : ArgItem) : List ArgItem × ArgsOut :=
  if lst.length ≤ 1 then (all ++ [it], .none)
  else
    let i : Int := if i > (lst.length : Int) then (lst.length : Int) - 1 else i
    match pyGet lst (i - 1) with
    | none => (all, .indexError)
    | some before =>
      match find before all with
      | none => (all, .valueError)
      | some j => (pyInsert all ((j : Int) + 1) it, .none)

def bookkeep := bookkeepWith indexAll

/-- `insert(i, arg)`: coerce (a `TypeError` leaves everything untouched), clamp `i` like
`list.insert`, insert into the list if `arg` is a group/command, then do the book-keeping. -/
def insert (st : ArgsSt) (i : Int) (a : ArgIn) : ArgsSt × ArgsOut :=
  match coerce st.next a with
  | none => (st, .typeError)
  | some (it, next') =>
    let n : Int := st.lst.length
    let i : Int := if i < 0 then max (n + i) 0 else min i n
    let lst' := match listed it with
      | some o => pyInsert st.lst i o
      | none => st.lst
    let r := bookkeep lst' st.all i it
    (⟨lst', r.1, next'⟩, r.2)

/-- `append(arg)` is `self.insert(len(self), arg)`. -/
def append (st : ArgsSt) (a : ArgIn) : ArgsSt × ArgsOut := insert st st.lst.length a

/-- `extend(args)`: `for arg in list(args): self.append(arg)` – a snapshot of the argument is
iterated (since the repair "TexArgs.extend(itself) never terminated"); stops at the first
exception, keeping what was appended before. -/
def extend (st : ArgsSt) : List ArgIn → ArgsSt × ArgsOut
  | [] => (st, .none)
  | a :: r =>
    match append st a with
    | (st', .none) => extend st' r
    | (st', out) => (st', out)

/-- `remove(item)`: coerce; `index = self.index(item)` – the first textually equal list
item, `ValueError` (nothing touched) if there is none; `del
self.all[self.__index_all(super().__getitem__(index))]`; `super().pop(index)`. -/
def remove (st : ArgsSt) (a : ArgIn) : ArgsSt × ArgsOut :=
  match coerce st.next a with
  | none => (st, .typeError)
  | some (it, next') =>
    match idxOfTxt (fun o : Obj => ser o.e) it.txt st.lst with
    | none => (⟨st.lst, st.all, next'⟩, .valueError)
    | some k =>
      match st.lst[k]? with
      | none => (⟨st.lst, st.all, next'⟩, .valueError)      -- unreachable: `k < len`
      | some o =>
        match indexAll o st.all with
        | none => (⟨st.lst, st.all, next'⟩, .valueError)
        | some j => (⟨st.lst.eraseIdx k, st.all.eraseIdx j, next'⟩, .none)

/-- `pop(i)`: `item = super().pop(i)` (`IndexError`, nothing changed);
`self.all.pop(self.__index_all(item))` (`ValueError` of the look-up with the list already
shortened – it cannot happen on reachable states); `return item`. -/
def pop (st : ArgsSt) (i : Int) : ArgsSt × ArgsOut :=
  match pyIndex st.lst.length i with
  | none => (st, .indexError)
  | some k =>
    match st.lst[k]? with
    | none => (st, .indexError)        -- unreachable: `k < len`
    | some item =>
      let lst' := st.lst.eraseIdx k
      match indexAll item st.all with
      | none => (⟨lst', st.all, st.next⟩, .valueError)
      | some j => (⟨lst', st.all.eraseIdx j, st.next⟩, .item (.grp item))

def reverse (st : ArgsSt) : ArgsSt × ArgsOut := (⟨st.lst.reverse, st.all.reverse, st.next⟩, .none)

def clear (st : ArgsSt) : ArgsSt × ArgsOut := (⟨[], [], st.next⟩, .none)

/-- `args[i]`. -/
def getItem (st : ArgsSt) (i : Int) : ArgsSt × ArgsOut :=
  match pyGet st.lst i with
  | none => (st, .indexError)
  | some o => (st, .item (.grp o))

/-- `TexArgs(items)`: `extend` on the empty state (allocation counter at `next`). -/
def construct (items : List ArgIn) (next : Nat := 0) : ArgsSt × ArgsOut :=
  extend (.empty next) items

/-- `args[lo:hi]`: the built-in slice, wrapped by `TexArgs(value)` – the same objects in a
new `TexArgs`. An exception in the constructor would propagate (it cannot happen for items
that came out of a list). -/
def slice (st : ArgsSt) (lo hi : Option Int) : ArgsSt × ArgsOut :=
  match construct ((pySlice st.lst lo hi).map .grp) st.next with
  | (st', .none) => (st, .sliceResult st')
  | (_, out) => (st, out)

/-- `args.extend(args[lo:hi])`: the slice is a new `TexArgs`; `extend` iterates over it as
over any list, i.e. over its list elements in list order (`.all` of the source plays no part),
and appends each – the same objects. -/
def extendSlice (st : ArgsSt) (lo hi : Option Int) : ArgsSt × ArgsOut :=
  match construct ((pySlice st.lst lo hi).map .grp) st.next with
  | (src, .none) => extend st (src.lst.map .grp)
  | (_, out) => (st, out)

/-- `args.extend(args)`: the snapshot `list(args)` is the list's elements at the time of the
call; each is appended – the list doubles, as a Python list does. (Before the repair the loop
ran over the growing list itself and never ended.) -/
def extendSelf (st : ArgsSt) : ArgsSt × ArgsOut := extend st (st.lst.map .grp)

/-- `str(args)`: `''.join(map(str, self))`. -/
def str (st : ArgsSt) : ArgsSt × ArgsOut := (st, .string (serL (st.lst.map Obj.e)))

def step (st : ArgsSt) : ArgsOp → ArgsSt × ArgsOut
  | .append a => append st a
  | .extend as => extend st as
  | .insert i a => insert st i a
  | .remove a => remove st a
  | .pop i => pop st i
  | .reverse => reverse st
  | .clear => clear st
  | .getItem i => getItem st i
  | .slice lo hi => slice st lo hi
  | .str => str st
  | .extendSlice lo hi => extendSlice st lo hi
  | .extendSelf => extendSelf st

/-- Run a history from a state; outputs in order. A Python caller that catches the
exceptions sees exactly this. -/
def run (st : ArgsSt) : List ArgsOp → ArgsSt × List ArgsOut
  | [] => (st, [])
  | op :: ops =>
    let r := step st op
    let rs := run r.1 ops
    (rs.1, r.2 :: rs.2)

/-! ## Two argument lists (of two commands) in one history -/

/-- Operations of a history over two `TexArgs`, `target` and `other`: an operation on one of
them, or extending one by the other (`target.extend(other)`; with `other := true` the roles
are swapped). -/
inductive PairOp where
  | on (other : Bool) (op : ArgsOp)
  | extendBy (other : Bool)
  deriving Repr, Inhabited

structure PairSt where
  tgt : ArgsSt
  oth : ArgsSt
  deriving Repr, Inhabited

/-- Object allocation is global: before a list acts, its counter is brought up to date with
the other's, so that groups made by either list are distinct objects. -/
def syncNext (a b : ArgsSt) : ArgsSt := ⟨a.lst, a.all, max a.next b.next⟩

/-- `a.extend(b)` for a `TexArgs` `b`: `for arg in b: a.append(arg)` – the list elements of
`b` in list order, the same objects. -/
def extendBy (a b : ArgsSt) : ArgsSt × ArgsOut := extend (syncNext a b) (b.lst.map .grp)

def stepPair (s : PairSt) : PairOp → PairSt × ArgsOut
  | .on false op => let r := step (syncNext s.tgt s.oth) op; (⟨r.1, s.oth⟩, r.2)
  | .on true op => let r := step (syncNext s.oth s.tgt) op; (⟨s.tgt, r.1⟩, r.2)
  | .extendBy false => let r := extendBy s.tgt s.oth; (⟨r.1, s.oth⟩, r.2)
  | .extendBy true => let r := extendBy s.oth s.tgt; (⟨s.tgt, r.1⟩, r.2)

def runPair (s : PairSt) : List PairOp → PairSt × List ArgsOut
  | [] => (s, [])
  | op :: ops =>
    let r := stepPair s op
    let rs := runPair r.1 ops
    (rs.1, r.2 :: rs.2)

/-- The object `o` after the object with identity `id` got the value `e'`. -/
def editObjOf (id : Oid) (e' : Expr) (o : Obj) : Obj := if o.id = id then ⟨o.id, e'⟩ else o

def editItemOf (id : Oid) (e' : Expr) : ArgItem → ArgItem
  | .grp o => .grp (editObjOf id e' o)
  | .ws s => .ws s

/-- Not a method of the class: what a later in-place edit of an argument's contents (e.g.
`args[0].string = '..'`) does to the state – the object with identity `id` has the new value
wherever it is referenced. Used to state that the book-keeping does not depend on texts. -/
def editObj (st : ArgsSt) (id : Oid) (e' : Expr) : ArgsSt :=
  ⟨st.lst.map (editObjOf id e'), st.all.map (editItemOf id e'), st.next⟩

/-! ## Earlier versions of the code, kept for the negative results -/

namespace Legacy
/-- `insert` before the repair of F9: no clamping, the raw `i` goes to `super().insert`
(which clamps internally) *and* to the book-keeping, which looked `before` up with
`self.all.index`. -/
def insert (st : ArgsSt) (i : Int) (a : ArgIn) : ArgsSt × ArgsOut :=
  match coerce st.next a with
  | none => (st, .typeError)
  | some (it, next') =>
    let lst' := match listed it with
      | some o => pyInsert st.lst i o
      | none => st.lst
    let r := bookkeepWith indexTxt lst' st.all i it
    (⟨lst', r.1, next'⟩, r.2)

/-- `pop` before its first repair: `item = super().pop(i)`; `j = self.all.index(item)`;
`return self.all.pop(j)` – the entry *of `.all`*, i.e. the first textual twin. -/
def pop (st : ArgsSt) (i : Int) : ArgsSt × ArgsOut :=
  match pyIndex st.lst.length i with
  | none => (st, .indexError)
  | some k =>
    match st.lst[k]? with
    | none => (st, .indexError)        -- unreachable: `k < len`
    | some item =>
      let lst' := st.lst.eraseIdx k
      match indexTxt item st.all with
      | none => (⟨lst', st.all, st.next⟩, .valueError)
      | some j =>
        match st.all[j]? with
        | none => (⟨lst', st.all, st.next⟩, .valueError)     -- unreachable: `j < len`
        | some r => (⟨lst', st.all.eraseIdx j, st.next⟩, .item r)
end Legacy

namespace Legacy2
/-! The code between the repair of `pop` and the repair "kept `.all` in step by text, not by
object": every look-up in `.all` by `self.all.index` (first textually equal entry), and
`remove` touching `.all` first. -/

def insert (st : ArgsSt) (i : Int) (a : ArgIn) : ArgsSt × ArgsOut :=
  match coerce st.next a with
  | none => (st, .typeError)
  | some (it, next') =>
    let n : Int := st.lst.length
    let i : Int := if i < 0 then max (n + i) 0 else min i n
    let lst' := match listed it with
      | some o => pyInsert st.lst i o
      | none => st.lst
    let r := bookkeepWith indexTxt lst' st.all i it
    (⟨lst', r.1, next'⟩, r.2)

/-- `item = self.__coerce(item); self.all.remove(item); super().remove(item)`. -/
def remove (st : ArgsSt) (a : ArgIn) : ArgsSt × ArgsOut :=
  match coerce st.next a with
  | none => (st, .typeError)
  | some (it, next') =>
    match idxOfTxt ArgItem.txt it.txt st.all with
    | none => (⟨st.lst, st.all, next'⟩, .valueError)
    | some j =>
      let all' := st.all.eraseIdx j
      match idxOfTxt (fun o : Obj => ser o.e) it.txt st.lst with
      | none => (⟨st.lst, all', next'⟩, .valueError)
      | some k => (⟨st.lst.eraseIdx k, all', next'⟩, .none)

/-- `item = super().pop(i); j = self.all.index(item); self.all.pop(j); return item`. -/
def pop (st : ArgsSt) (i : Int) : ArgsSt × ArgsOut :=
  match pyIndex st.lst.length i with
  | none => (st, .indexError)
  | some k =>
    match st.lst[k]? with
    | none => (st, .indexError)
    | some item =>
      let lst' := st.lst.eraseIdx k
      match indexTxt item st.all with
      | none => (⟨lst', st.all, st.next⟩, .valueError)
      | some j => (⟨lst', st.all.eraseIdx j, st.next⟩, .item (.grp item))
end Legacy2

end Args
end TexSoup
