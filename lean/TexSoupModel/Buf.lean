import TexSoupModel.Basic
/-!
# Model of `class Buffer` (`TexSoup/utils.py`), as the code is after the repairs

A `Buffer` wraps an iterator.  Elements are pulled from the iterator only when `__next__` or
`__getitem__` needs them and are kept in a queue; the cursor `i` is a plain integer that
`forward(j)` may move past the end.  The model keeps the three pieces apart,

* `queue` – the elements materialised so far (`self.__queue`),
* `i`     – the cursor (`self.__i`),
* `rest`  – what the iterator would still yield (`self.__iterator`),

and mirrors the loops of the code literally (`fill` is the `while` of `__next__`, `loopNext`
the `while` of `__getitem__`, `scanLoop` the `while` of `forward_until`/`num_forward_until`),
so that the laziness is visible in the state and its unobservability is a theorem
(`TexSoupProofs/Properties/C20.lean`), not a modelling decision.

Elements are token *texts* (`Str`; a character of a string-backed buffer is a one-element
`Str`), `join` is concatenation (`Token.join`; the empty join is `Token.Empty`, text `''`).
Token offsets and categories are not modelled.  Python exceptions are output values; loops
run on fuel and report `BufOut.fuel` if it runs out (proved unreachable).

Not modelled: `forward_until(cond, peek=False)` (the condition then receives the buffer
itself), `__iter__`, negative arguments of `__getitem__` called directly (`peek` guards them).
-/
namespace TexSoup

/-- `(self.__queue, self.__i, remainder of self.__iterator)`. -/
structure BufState where
  queue : List Str
  i     : Nat
  rest  : List Str
  deriving DecidableEq, Repr

/-- What a `Buffer` method returns or raises. -/
inductive BufOut where
  /-- result of `join` or of `+=` accumulation: a token whose text is the concatenation -/
  | joined (s : Str)
  /-- one queue element -/
  | elem (s : Str)
  | none
  | bool (b : Bool)
  | nat (n : Nat)
  | stopIteration
  | assertionError
  | indexError
  /-- a model loop ran out of fuel (never happens, see `C20.step_refines`) -/
  | fuel
  deriving DecidableEq, Repr

/-- The public operations.  Conditions of the two scans are "element ∈ finite set". -/
inductive BufOp where
  | next
  | forward (j : Int)
  | backward (j : Int)
  | peek (j : Int)
  | peekRange (a b : Int)
  | getItem (k : Nat)
  | slice (a b : Option Nat)
  | hasNext (n : Int)
  | startswith (s : Str)
  | endswith (s : Str)
  | forwardUntil (cond : List Str)
  | numForwardUntil (cond : List Str)
  | position
  deriving DecidableEq, Repr

namespace Buf

/-- `Buffer(iterable)`: nothing materialised, cursor 0. -/
def init (src : List Str) : BufState := ⟨[], 0, src⟩

/-- `Buffer('abc')`: the elements are the characters. -/
def ofString (s : Str) : BufState := init (s.map fun c => [c])

/-- Number of elements of the underlying sequence. -/
def total (s : BufState) : Nat := s.queue.length + s.rest.length

/-- Python's `l[a:b]` for absent or non-negative bounds. -/
def pySlice {α : Type} (l : List α) (a b : Option Nat) : List α :=
  (match b with
   | none => l
   | some b => l.take b).drop (a.getD 0)

/-- `Token.join(tokens)`: concatenated text (`Token.Empty` for no tokens). -/
def join (ts : List Str) : Str := ts.flatten

/-- `str.endswith`. -/
def isSuffix (p l : Str) : Bool := isPrefix p.reverse l.reverse

/-- The inner loop of `__next__`:
`while self.__i >= len(self.__queue): self.__queue.append(init(next(self.__iterator), ...))`.
Stops when the queue is long enough or the iterator is exhausted (the caller sees the
latter as `len(queue) <= i`: `next(iterator)` raised `StopIteration`). -/
def fill (i : Nat) : List Str → List Str → List Str × List Str
  | q, [] => (q, [])
  | q, x :: r => if q.length ≤ i then fill i (q ++ [x]) r else (q, x :: r)

/-- `__next__`. -/
def next (s : BufState) : BufState × BufOut :=
  match fill s.i s.queue s.rest with
  | (q, r) =>
    match q[s.i]? with
    | some x => (⟨q, s.i + 1, r⟩, .elem x)
    | none => (⟨q, s.i, r⟩, .stopIteration)

/-- The loop condition of `__getitem__`: `j is None or self.__i <= j`. -/
def loopCond : Option Nat → Nat → Bool
  | none, _ => true
  | some j, i => decide (i ≤ j)

/-- The loop of `__getitem__`:
`while j is None or self.__i <= j: try: next(self) except StopIteration: break`.
`none` = out of fuel. -/
def loopNext : Nat → Option Nat → BufState → Option BufState
  | 0, _, _ => none
  | fuel + 1, j, s =>
    if loopCond j s.i then
      match next s with
      | (s', .stopIteration) => some s'
      | (s', _) => loopNext fuel j s'
    else some s

/-- Enough fuel for any loop started in `s`. -/
def fuelOf (s : BufState) : Nat := total s + 1

/-- `self[k]` for `k ≥ 0`: fill, restore the cursor, index the queue. -/
def getItem (s : BufState) (k : Nat) : BufState × BufOut :=
  match loopNext (fuelOf s) (some k) s with
  | none => (s, .fuel)
  | some s1 =>
    let s' : BufState := { s1 with i := s.i }
    match s'.queue[k]? with
    | some x => (s', .elem x)
    | none => (s', .indexError)

/-- `self[a:b]` for absent or non-negative bounds: fill up to `b` (everything if `b` is
absent), restore the cursor, join the slice of the queue. -/
def slice (s : BufState) (a b : Option Nat) : BufState × BufOut :=
  match loopNext (fuelOf s) b s with
  | none => (s, .fuel)
  | some s1 =>
    let s' : BufState := { s1 with i := s.i }
    (s', .joined (join (pySlice s'.queue a b)))

/-- `peek(j)` for an integer `j`. -/
def peek (s : BufState) (j : Int) : BufState × BufOut :=
  if (s.i : Int) + j < 0 then (s, .none)
  else
    match getItem s ((s.i : Int) + j).toNat with
    | (s', .indexError) => (s', .none)
    | r => r

/-- `peek((a, b))`. -/
def peekRange (s : BufState) (a b : Int) : BufState × BufOut :=
  slice s (some (max ((s.i : Int) + a) 0).toNat) (some (max ((s.i : Int) + b) 0).toNat)

/-- `hasNext(n) = bool(self.peek(n - 1))`; a token with empty text is falsy. -/
def hasNext (s : BufState) (n : Int) : BufState × BufOut :=
  match peek s (n - 1) with
  | (s', .elem x) => (s', .bool (!x.isEmpty))
  | (s', .none) => (s', .bool false)
  | r => r

/-- `startswith(x) = self.peek((0, len(x))).startswith(x)`: `len(x)` counts characters but is
used as a number of elements. -/
def startswith (s : BufState) (x : Str) : BufState × BufOut :=
  match peekRange s 0 (x.length : Int) with
  | (s', .joined t) => (s', .bool (isPrefix x t))
  | r => r

/-- `endswith(x) = self.peek((-len(x), 0)).endswith(x)`. -/
def endswith (s : BufState) (x : Str) : BufState × BufOut :=
  match peekRange s (-(x.length : Int)) 0 with
  | (s', .joined t) => (s', .bool (isSuffix x t))
  | r => r

/-- The body of `forward(j)` for `j ≥ 0`: `self.__i += j; return self[self.__i - j:self.__i]`. -/
def moveFwd (s : BufState) (j : Nat) : BufState × BufOut :=
  let s1 : BufState := { s with i := s.i + j }
  slice s1 (some (s1.i - j)) (some s1.i)

/-- The body of `backward(j)` for `j ≥ 0`:
`assert self.__i - j >= 0; self.__i -= j; return self[self.__i:self.__i + j]`. -/
def moveBwd (s : BufState) (j : Nat) : BufState × BufOut :=
  if s.i < j then (s, .assertionError)
  else
    let s1 : BufState := { s with i := s.i - j }
    slice s1 (some s1.i) (some (s1.i + j))

/-- `forward(j)`; a negative `j` delegates to `backward(-j)`. -/
def forward (s : BufState) (j : Int) : BufState × BufOut :=
  if j < 0 then moveBwd s (-j).toNat else moveFwd s j.toNat

/-- `backward(j)`; a negative `j` delegates to `forward(-j)`. -/
def backward (s : BufState) (j : Int) : BufState × BufOut :=
  if j < 0 then moveFwd s (-j).toNat else moveBwd s j.toNat

/-- `condition(self.peek())` for `condition = lambda x: x in cond`; `None` is in no set of
strings; anything else `peek` could produce is an exception and propagates. -/
def condOf (cond : List Str) : BufOut → Option Bool
  | .elem x => some (memStr x cond)
  | .none => some false
  | _ => none

/-- The loop shared by `forward_until` and `num_forward_until`:
`while self.hasNext() and not condition(self.peek()): c += self.forward(1); i += 1`.
Answers the final state, `joined c` (or the exception that ended the loop) and the count. -/
def scanLoop (cond : List Str) : Nat → Str → Nat → BufState → BufState × BufOut × Nat
  | 0, _, n, s => (s, .fuel, n)
  | fuel + 1, c, n, s =>
    match hasNext s 1 with
    | (s1, .bool true) =>
      match peek s1 0 with
      | (s2, o) =>
        match condOf cond o with
        | none => (s2, o, n)
        | some true => (s2, .joined c, n)
        | some false =>
          match forward s2 1 with
          | (s3, .joined t) => scanLoop cond fuel (c ++ t) (n + 1) s3
          | (s3, e) => (s3, e, n)
    | (s1, .bool false) => (s1, .joined c, n)
    | (s1, e) => (s1, e, n)

/-- `forward_until(condition)` (with the default `peek=True`): `start = self.peek()` is taken
only for its offset, `None` at the end is tolerated. -/
def forwardUntil (s : BufState) (cond : List Str) : BufState × BufOut :=
  match peek s 0 with
  | (s0, _) =>
    match scanLoop cond (fuelOf s0) [] 0 s0 with
    | (s', o, _) => (s', o)

/-- `num_forward_until(condition)`: scan, then `assert self.backward(i) == c; return i`. -/
def numForwardUntil (s : BufState) (cond : List Str) : BufState × BufOut :=
  match scanLoop cond (fuelOf s) [] 0 s with
  | (s1, .joined c, n) =>
    match backward s1 (n : Int) with
    | (s2, .joined t) => if t = c then (s2, .nat n) else (s2, .assertionError)
    | r => r
  | (s1, e, _) => (s1, e)

/-- One public operation. -/
def step (s : BufState) : BufOp → BufState × BufOut
  | .next => next s
  | .forward j => forward s j
  | .backward j => backward s j
  | .peek j => peek s j
  | .peekRange a b => peekRange s a b
  | .getItem k => getItem s k
  | .slice a b => slice s a b
  | .hasNext n => hasNext s n
  | .startswith x => startswith s x
  | .endswith x => endswith s x
  | .forwardUntil c => forwardUntil s c
  | .numForwardUntil c => numForwardUntil s c
  | .position => (s, .nat s.i)

/-- A history: final state and the outputs in order. -/
def run (s : BufState) : List BufOp → BufState × List BufOut
  | [] => (s, [])
  | op :: ops =>
    match step s op with
    | (s', o) =>
      match run s' ops with
      | (s'', os) => (s'', o :: os)

/-- `run` that also records the cursor after each operation (what the harness observes). -/
def trace (s : BufState) : List BufOp → List (BufOut × Nat)
  | [] => []
  | op :: ops =>
    match step s op with
    | (s', o) => (o, s'.i) :: trace s' ops

/-! ## The unrepaired `peek` (kept for the negative theorem) -/
namespace Legacy

/-- Python's `q[k]` for any integer `k`: a negative index counts from the end of the list. -/
def pyIndex (q : List Str) (k : Int) : Option Str :=
  if 0 ≤ k then q[k.toNat]?
  else if 0 ≤ (q.length : Int) + k then q[((q.length : Int) + k).toNat]? else Option.none

/-- `self[k]` for any integer `k` (old code path): the fill loop `while self.__i <= k` does
not run for `k < 0`, then the *materialised* queue is indexed. -/
def getItem (s : BufState) (k : Int) : BufState × BufOut :=
  if 0 ≤ k then Buf.getItem s k.toNat
  else
    match pyIndex s.queue k with
    | some x => (s, .elem x)
    | Option.none => (s, .indexError)

/-- `peek(j)` before the repair: `try: return self[self.__i + j] except IndexError: return None`. -/
def peek (s : BufState) (j : Int) : BufState × BufOut :=
  match getItem s ((s.i : Int) + j) with
  | (s', .indexError) => (s', .none)
  | r => r

end Legacy

end Buf
end TexSoup
