import TexSoupModel.NavPath
/-!
# Canonical text form of the navigation views with parent links (driver request `nav`)

For the root and then for every non-text descendant of the root, in the order of
`descRootP`, one record

    path|parentpath|C[..]|K[..]|D[..]|T[..]

joined by ` # `. A path is printed as its steps joined by `.` (`b3` = `Step.body 3`,
`a1:2` = `Step.arg 1 2`), the empty path (the root) as `-`, the parent of the root as `^`.
`C`/`K`/`D`/`T` are `contents`/`children`/`descendants`/`text` of the node, each element as
the encoding of its `str()` (decimal code points joined by `.`, `-` for the empty string),
elements joined by `,`. The Python side (`harness/lib_nav.py`) produces the same string from
the real objects, finding each path by object identity along the `parent` links.
-/
namespace TexSoup

def navEnc (s : Str) : String :=
  if s.isEmpty then "-" else ".".intercalate (s.map toString)

def navSers (l : List Expr) : String := ",".intercalate (l.map fun e => navEnc (ser e))

def showStep : Step → String
  | .arg i j => "a" ++ toString i ++ ":" ++ toString j
  | .body j => "b" ++ toString j

def showPath (p : Path) : String :=
  if p.isEmpty then "-" else ".".intercalate (p.map showStep)

def navRecord (path parent : String) (c k d t : List Expr) : String :=
  path ++ "|" ++ parent ++ "|C[" ++ navSers c ++ "]|K[" ++ navSers k ++ "]|D[" ++ navSers d
    ++ "]|T[" ++ navSers t ++ "]"

/-- the records of a whole document -/
def navHandle (es : List Expr) : String :=
  let root := navRecord (showPath []) "^" (contentsOf (rootWrap es)) (childrenOf (rootWrap es))
    (descRoot es) (textRoot es)
  let nodes := (descRootP es).filter (fun px => !px.2.isText)
  " # ".intercalate (root :: nodes.map fun px =>
    navRecord (showPath px.1) (showPath (parentPath px.1)) (contentsOf px.2) (childrenOf px.2)
      (descOf px.2) (textOf px.2))

end TexSoup
