import TexSoupModel.GrammarOps
/-!
# Renaming commands and environments in a grammar document

`rename r` replaces the text of the NAME token of every command selected by `r.pc` by `r.newc`
and the two name tokens (inside `\begin{..}` and inside `\end{..}`) of every environment
selected by `r.pe` by `r.newe`. `\item`s and verbatim-like environments (whose raw body ends at
the spelled end marker) are never renamed, raw verbatim bodies are not touched.

`renameCmds p new` / `renameEnvs p new` are the two special cases with a predicate on the name
token alone (e.g. `fun n => n.pos == k` = "the command whose name stands at offset k",
`fun n => n.text == old`).

`sameRole old new` / `envRole old new` are the (decidable) conditions under which the frame
conditions of the grammar cannot tell the two names apart
(`TexSoupProofs/Complete/Rename.lean`, `TexSoupProofs/Properties/C14Grammar.lean`).
-/
namespace TexSoup.Gram
open TexSoup

/-- What to rename: `pc esc name` selects commands (backslash token, name token), `pe esc nt`
environments (backslash token of `\begin`, name token inside the braces). -/
structure Ren where
  pc : Tok → Tok → Bool
  newc : Str
  pe : Tok → Tok → Bool
  newe : Str

/-- the name token of a command after the renaming -/
def Ren.cmdName (r : Ren) (esc n : Tok) : Tok :=
  if r.pc esc n then { n with text := r.newc } else n

/-- a `{name}` group of an environment after the renaming (`sel` = the environment is selected) -/
def Ren.envName (r : Ren) (sel : Bool) (nm : NameArg) : NameArg :=
  if sel then { nm with nt := { nm.nt with text := r.newe } } else nm

mutual
def rename (r : Ren) : Elem → Elem
  | .leaf t => .leaf t
  | .group o b c => .group o (renameS r b) c
  | .math k o b c => .math k o (renameS r b) c
  | .cmd e n a1 a2 a3 a4 =>
      .cmd e (r.cmdName e n) (renameA r a1) (renameA r a2) (renameA r a3) (renameA r a4)
  | .item e n a1 a2 a3 a4 b =>
      .item e n (renameA r a1) (renameA r a2) (renameA r a3) (renameA r a4) (renameS r b)
  | .env e bg nm a2 a3 a4 b e2 en nm2 =>
      .env e bg (r.envName (r.pe e nm.nt) nm) (renameA r a2) (renameA r a3) (renameA r a4)
        (renameS r b) e2 en (r.envName (r.pe e nm.nt) nm2)
  | .venv e bg nm a2 a3 a4 vb e5 =>
      .venv e bg nm (renameA r a2) (renameA r a3) (renameA r a4) vb e5
def renameS (r : Ren) : List Elem → List Elem
  | [] => []
  | e :: es => rename r e :: renameS r es
def renameArg (r : Ren) : Arg → Arg
  | .mk sp o b c => .mk sp o (renameS r b) c
def renameA (r : Ren) : List Arg → List Arg
  | [] => []
  | a :: as => renameArg r a :: renameA r as
end

def renameD (r : Ren) (d : Doc) : Doc := renameS r d

/-- rename the commands whose name token satisfies `p` -/
def Ren.cmds (p : Tok → Bool) (new : Str) : Ren := ⟨fun _ n => p n, new, fun _ _ => false, []⟩
/-- rename the environments whose name token satisfies `p` -/
def Ren.envs (p : Tok → Bool) (new : Str) : Ren := ⟨fun _ _ => false, [], fun _ n => p n, new⟩

def renameCmds (p : Tok → Bool) (new : Str) : Elem → Elem := rename (Ren.cmds p new)
def renameCmdsS (p : Tok → Bool) (new : Str) : List Elem → List Elem := renameS (Ren.cmds p new)
def renameCmdsArg (p : Tok → Bool) (new : Str) : Arg → Arg := renameArg (Ren.cmds p new)
def renameCmdsA (p : Tok → Bool) (new : Str) : List Arg → List Arg := renameA (Ren.cmds p new)
def renameCmdsD (p : Tok → Bool) (new : Str) (d : Doc) : Doc := renameD (Ren.cmds p new) d

def renameEnvs (p : Tok → Bool) (new : Str) : Elem → Elem := rename (Ren.envs p new)
def renameEnvsS (p : Tok → Bool) (new : Str) : List Elem → List Elem := renameS (Ren.envs p new)
def renameEnvsArg (p : Tok → Bool) (new : Str) : Arg → Arg := renameArg (Ren.envs p new)
def renameEnvsA (p : Tok → Bool) (new : Str) : List Arg → List Arg := renameA (Ren.envs p new)
def renameEnvsD (p : Tok → Bool) (new : Str) (d : Doc) : Doc := renameD (Ren.envs p new) d

/-- Selection by what the tree shows of a node: its name and its position (`qc` for commands,
`qe` for environments). -/
def Ren.ofQ (qc : Str → Int → Bool) (newc : Str) (qe : Str → Int → Bool) (newe : Str) : Ren :=
  ⟨fun esc n => qc n.text esc.pos, newc, fun esc nt => qe nt.text esc.pos, newe⟩

/-! ### the side conditions -/

/-- Two command names the reader cannot tell apart: neither is `item`; both or neither are
`end` / `begin` (a stray `\end` ends the contents of an `\item` and an environment body, `\begin`
opens an environment outside the arguments of a special command); the same signature; both or
neither are special commands (argument mode). -/
def sameRole (old new : Str) : Bool :=
  old != sItem && new != sItem
  && ((old == sEnd) == (new == sEnd)) && ((old == sBegin) == (new == sBegin))
  && (cmdSig (-1) (-1) old == cmdSig (-1) (-1) new)
  && (memStr old Tables.specialCommands == memStr new Tables.specialCommands)

/-- Two environment names the reader cannot tell apart (as far as they are not in the skip list,
which depends on the call): the new one is written without surrounding blanks (`\end{x}` closes
`\begin{y}` iff `x = strip y`), both or neither are math environments (mode of the body). -/
def envRole (old new : Str) : Bool :=
  (strip new == new)
  && (memStr (strip old) Tables.mathEnvNames == memStr new Tables.mathEnvNames)

/-! ### the same renaming on trees -/

end TexSoup.Gram

namespace TexSoup

mutual
/-- Rename the command nodes selected by `qc` (name, position) to `newc` and the environment
nodes selected by `qe` to `newe`; nothing else changes (arguments, contents, nesting,
positions). -/
def renameTree (qc : Str → Int → Bool) (newc : Str) (qe : Str → Int → Bool) (newe : Str) : Expr → Expr
  | .text s p => .text s p
  | .cmd n a b p =>
      .cmd (if qc n p then newc else n) (renameTreeL qc newc qe newe a) (renameTreeL qc newc qe newe b) p
  | .nenv n a b p =>
      .nenv (if qe n p then newe else n) (renameTreeL qc newc qe newe a) (renameTreeL qc newc qe newe b) p
  | .math k b p => .math k (renameTreeL qc newc qe newe b) p
  | .group k b p => .group k (renameTreeL qc newc qe newe b) p
def renameTreeL (qc : Str → Int → Bool) (newc : Str) (qe : Str → Int → Bool) (newe : Str) :
    List Expr → List Expr
  | [] => []
  | e :: es => renameTree qc newc qe newe e :: renameTreeL qc newc qe newe es
end

end TexSoup

namespace TexSoup.Gram
open TexSoup

mutual
/-- Command names are written without surrounding blanks (true of every tokenizer output; the
tree shows `strip name`). -/
def cmdNamesPlain : Elem → Bool
  | .leaf _ => true
  | .group _ b _ => cmdNamesPlainS b
  | .math _ _ b _ => cmdNamesPlainS b
  | .cmd _ n a1 a2 a3 a4 =>
      strip n.text == n.text && cmdNamesPlainA a1 && cmdNamesPlainA a2 && cmdNamesPlainA a3 && cmdNamesPlainA a4
  | .item _ n a1 a2 a3 a4 b =>
      strip n.text == n.text && cmdNamesPlainA a1 && cmdNamesPlainA a2 && cmdNamesPlainA a3 && cmdNamesPlainA a4
      && cmdNamesPlainS b
  | .env _ _ _ a2 a3 a4 b _ _ _ =>
      cmdNamesPlainA a2 && cmdNamesPlainA a3 && cmdNamesPlainA a4 && cmdNamesPlainS b
  | .venv _ _ _ a2 a3 a4 _ _ => cmdNamesPlainA a2 && cmdNamesPlainA a3 && cmdNamesPlainA a4
def cmdNamesPlainS : List Elem → Bool
  | [] => true
  | e :: es => cmdNamesPlain e && cmdNamesPlainS es
def cmdNamesPlainArg : Arg → Bool
  | .mk _ _ b _ => cmdNamesPlainS b
def cmdNamesPlainA : List Arg → Bool
  | [] => true
  | a :: as => cmdNamesPlainArg a && cmdNamesPlainA as
end

end TexSoup.Gram
