import TexSoupModel.GrammarOps
import TexSoupModel.Path
/-!
# Renaming commands and environments in a grammar document

`rename r` replaces the text of the NAME token of every command selected by `r.pc` by `r.newc`
and the two name tokens (inside `\begin{..}` and inside `\end{..}`) of every environment
selected by `r.pe` by `r.newe`. `\item`s and verbatim-like environments (whose raw body ends at
the spelled end marker) are never renamed, raw verbatim bodies are not touched.

`renameCmds p new` / `renameEnvs p new` are the two special cases with a predicate on the name
token alone (e.g. `fun n => n.pos == k` = "the command whose name stands at offset k",
`fun n => n.text == old`).

`sameRole old new` / `envRole old new` are the (decidable) conditions under which the frame
conditions of the grammar cannot tell the two names apart
(`TexSoupProofs/Complete/Rename.lean`, `TexSoupProofs/Properties/C14Grammar.lean`).
-/
namespace TexSoup.Gram
open TexSoup

/-- What to rename: `pc esc name` selects commands (backslash token, name token), `pe esc nt`
environments (backslash token of `\begin`, name token inside the braces). -/
structure Ren where
  pc : Tok → Tok → Bool
  newc : Str
  pe : Tok → Tok → Bool
  newe : Str

/-- the name token of a command after the renaming -/
def Ren.cmdName (r : Ren) (esc n : Tok) : Tok :=
  if r.pc esc n then { n with text := r.newc } else n

/-- a `{name}` group of an environment after the renaming (`sel` = the environment is selected) -/
def Ren.envName (r : Ren) (sel : Bool) (nm : NameArg) : NameArg :=
  if sel then { nm with nt := { nm.nt with text := r.newe } } else nm

mutual
def rename (r : Ren) : Elem → Elem
  | .leaf t => .leaf t
  | .group o b c => .group o (renameS r b) c
  | .math k o b c => .math k o (renameS r b) c
  | .cmd e n a1 a2 a3 a4 =>
      .cmd e (r.cmdName e n) (renameA r a1) (renameA r a2) (renameA r a3) (renameA r a4)
  | .item e n a1 a2 a3 a4 b =>
      .item e n (renameA r a1) (renameA r a2) (renameA r a3) (renameA r a4) (renameS r b)
  | .env e bg nm a2 a3 a4 b e2 en nm2 =>
      .env e bg (r.envName (r.pe e nm.nt) nm) (renameA r a2) (renameA r a3) (renameA r a4)
        (renameS r b) e2 en (r.envName (r.pe e nm.nt) nm2)
  | .venv e bg nm a2 a3 a4 vb e5 =>
      .venv e bg nm (renameA r a2) (renameA r a3) (renameA r a4) vb e5
def renameS (r : Ren) : List Elem → List Elem
  | [] => []
  | e :: es => rename r e :: renameS r es
def renameArg (r : Ren) : Arg → Arg
  | .mk sp o b c => .mk sp o (renameS r b) c
def renameA (r : Ren) : List Arg → List Arg
  | [] => []
  | a :: as => renameArg r a :: renameA r as
end

def renameD (r : Ren) (d : Doc) : Doc := renameS r d

/-- rename the commands whose name token satisfies `p` -/
def Ren.cmds (p : Tok → Bool) (new : Str) : Ren := ⟨fun _ n => p n, new, fun _ _ => false, []⟩
/-- rename the environments whose name token satisfies `p` -/
def Ren.envs (p : Tok → Bool) (new : Str) : Ren := ⟨fun _ _ => false, [], fun _ n => p n, new⟩

def renameCmds (p : Tok → Bool) (new : Str) : Elem → Elem := rename (Ren.cmds p new)
def renameCmdsS (p : Tok → Bool) (new : Str) : List Elem → List Elem := renameS (Ren.cmds p new)
def renameCmdsArg (p : Tok → Bool) (new : Str) : Arg → Arg := renameArg (Ren.cmds p new)
def renameCmdsA (p : Tok → Bool) (new : Str) : List Arg → List Arg := renameA (Ren.cmds p new)
def renameCmdsD (p : Tok → Bool) (new : Str) (d : Doc) : Doc := renameD (Ren.cmds p new) d

def renameEnvs (p : Tok → Bool) (new : Str) : Elem → Elem := rename (Ren.envs p new)
def renameEnvsS (p : Tok → Bool) (new : Str) : List Elem → List Elem := renameS (Ren.envs p new)
def renameEnvsArg (p : Tok → Bool) (new : Str) : Arg → Arg := renameArg (Ren.envs p new)
def renameEnvsA (p : Tok → Bool) (new : Str) : List Arg → List Arg := renameA (Ren.envs p new)
def renameEnvsD (p : Tok → Bool) (new : Str) (d : Doc) : Doc := renameD (Ren.envs p new) d

/-- Selection by what the tree shows of a node: its name and its position (`qc` for commands,
`qe` for environments). -/
def Ren.ofQ (qc : Str → Int → Bool) (newc : Str) (qe : Str → Int → Bool) (newe : Str) : Ren :=
  ⟨fun esc n => qc n.text esc.pos, newc, fun esc nt => qe nt.text esc.pos, newe⟩

/-! ### the side conditions -/

/-- Two command names the reader cannot tell apart: neither is `item`; both or neither are
`end` / `begin` (a stray `\end` ends the contents of an `\item` and an environment body, `\begin`
opens an environment outside the arguments of a special command); the same signature; both or
neither are special commands (argument mode). -/
def sameRole (old new : Str) : Bool :=
  old != sItem && new != sItem
  && ((old == sEnd) == (new == sEnd)) && ((old == sBegin) == (new == sBegin))
  && (cmdSig (-1) (-1) old == cmdSig (-1) (-1) new)
  && (memStr old Tables.specialCommands == memStr new Tables.specialCommands)

/-- Two environment names the reader cannot tell apart (as far as they are not in the skip list,
which depends on the call): the new one is written without surrounding blanks (`\end{x}` closes
`\begin{y}` iff `x = strip y`), both or neither are math environments (mode of the body). -/
def envRole (old new : Str) : Bool :=
  (strip new == new)
  && (memStr (strip old) Tables.mathEnvNames == memStr new Tables.mathEnvNames)

/-! ### the same renaming on trees -/

end TexSoup.Gram

namespace TexSoup

mutual
/-- Rename the command nodes selected by `qc` (name, position) to `newc` and the environment
nodes selected by `qe` to `newe`; nothing else changes (arguments, contents, nesting,
positions). -/
def renameTree (qc : Str → Int → Bool) (newc : Str) (qe : Str → Int → Bool) (newe : Str) : Expr → Expr
  | .text s p => .text s p
  | .cmd n a b p =>
      .cmd (if qc n p then newc else n) (renameTreeL qc newc qe newe a) (renameTreeL qc newc qe newe b) p
  | .nenv n a b p =>
      .nenv (if qe n p then newe else n) (renameTreeL qc newc qe newe a) (renameTreeL qc newc qe newe b) p
  | .math k b p => .math k (renameTreeL qc newc qe newe b) p
  | .group k b p => .group k (renameTreeL qc newc qe newe b) p
def renameTreeL (qc : Str → Int → Bool) (newc : Str) (qe : Str → Int → Bool) (newe : Str) :
    List Expr → List Expr
  | [] => []
  | e :: es => renameTree qc newc qe newe e :: renameTreeL qc newc qe newe es
end

mutual
/-- Apply `g` to the outermost nodes selected by `sel`; everything else is rebuilt unchanged. -/
def mapSel (sel : Expr → Bool) (g : Expr → Expr) : Expr → Expr
  | .text s p => if sel (.text s p) then g (.text s p) else .text s p
  | .cmd n a b p =>
      if sel (.cmd n a b p) then g (.cmd n a b p) else .cmd n (mapSelL sel g a) (mapSelL sel g b) p
  | .nenv n a b p =>
      if sel (.nenv n a b p) then g (.nenv n a b p) else .nenv n (mapSelL sel g a) (mapSelL sel g b) p
  | .math k b p => if sel (.math k b p) then g (.math k b p) else .math k (mapSelL sel g b) p
  | .group k b p => if sel (.group k b p) then g (.group k b p) else .group k (mapSelL sel g b) p
def mapSelL (sel : Expr → Bool) (g : Expr → Expr) : List Expr → List Expr
  | [] => []
  | e :: es => mapSel sel g e :: mapSelL sel g es
end

mutual
/-- The tree without any position (all set to `0`, also the `-1` of made-up nodes). -/
def bare : Expr → Expr
  | .text s _ => .text s 0
  | .cmd n a b _ => .cmd n (bareL a) (bareL b) 0
  | .nenv n a b _ => .nenv n (bareL a) (bareL b) 0
  | .math k b _ => .math k (bareL b) 0
  | .group k b _ => .group k (bareL b) 0
def bareL : List Expr → List Expr
  | [] => []
  | e :: es => bare e :: bareL es
end

/-- the contents are one text -/
def isOneText : List Expr → Bool
  | [.text _ _] => true
  | _ => false

/-- `node.string = s` is applicable (tree side): a selected command with exactly one argument,
a selected environment without arguments whose contents are one text. -/
def strSel (qc qe : Str → Int → Bool) : Expr → Bool
  | .cmd n a _ p => qc n p && a.length == 1
  | .nenv n a b p => qe n p && a.isEmpty && isOneText b
  | _ => false

/-- `node.string = s` on an applicable node; `np` is the position of the new text leaf (`-1` in
the implementation: a plain string). -/
def strTop (s : Str) (np : Int) : Expr → Expr
  | .cmd n a b p => .cmd n (a.map fun x => x.setBody [.text s np]) b p
  | .nenv n a _ p => .nenv n a [.text s np] p
  | e => e

/-- the elements at the given indices, in that order (`[l[i] for i in idx]`; indices beyond the
end are skipped) -/
def pick {α : Type} (idx : List Nat) (l : List α) : List α := idx.filterMap (l[·]?)

/-- the kind of an argument group -/
def isGroupOf (k : GKind) : Expr → Bool
  | .group k' _ _ => k' == k
  | _ => false

/-- `node.args = [args[i] for i in i1 ++ i2 ++ i3 ++ i4]` is applicable (tree side) and the new
list is a run that the reader reads back: the arguments picked by `i1` are bracket groups, by `i2`
brace groups, by `i3` bracket groups, by `i4` brace groups (for an environment `i1` is empty: the
run behind `\begin{name}` starts with brace groups). -/
def argSel (qc qe : Str → Int → Bool) (i1 i2 i3 i4 : List Nat) : Expr → Bool
  | .cmd n a _ p => qc n p && (pick i1 a).all (isGroupOf .bracket) && (pick i2 a).all (isGroupOf .brace)
      && (pick i3 a).all (isGroupOf .bracket) && (pick i4 a).all (isGroupOf .brace)
  | .nenv n a _ p => qe n p && i1.isEmpty && (pick i2 a).all (isGroupOf .brace)
      && (pick i3 a).all (isGroupOf .bracket) && (pick i4 a).all (isGroupOf .brace)
  | _ => false

/-- `node.args = [args[i] for i in idx]` -/
def argTop (idx : List Nat) : Expr → Expr
  | .cmd n a b p => .cmd n (pick idx a) b p
  | .nenv n a b p => .nenv n (pick idx a) b p
  | e => e

end TexSoup

namespace TexSoup.Gram
open TexSoup

/-! ### `node.args = [own arguments, reordered / sliced]` -/

/-- What to re-argument: `pc esc name` selects commands, `pe esc nt` environments; the new
argument run is given by four index lists into the old argument list: first bracket groups, then
brace groups, then bracket groups, then brace groups. -/
structure SetA where
  pc : Tok → Tok → Bool
  pe : Tok → Tok → Bool
  i1 : List Nat
  i2 : List Nat
  i3 : List Nat
  i4 : List Nat

/-- an argument group with its kind -/
abbrev TA := GKind × Arg

def tag (k : GKind) (as : List Arg) : List TA := as.map fun a => (k, a)

/-- the picked groups are of kind `k` -/
def kindsAre (k : GKind) (l : List TA) : Bool := l.all fun x => x.1 == k

/-- the argument without the spacer in front of it (the serialiser does not print it) -/
def untag (l : List TA) : List Arg := l.map fun x => match x.2 with
  | .mk _ o b c => .mk none o b c

mutual
/-- `node.args = [args[i] for i in i1 ++ i2 ++ i3 ++ i4]` on the selected commands and
environments, if the picked groups have the kinds of a readable run; nothing below a
re-argumented node changes. -/
def setArgs (r : SetA) : Elem → Elem
  | .leaf t => .leaf t
  | .group o b c => .group o (setArgsS r b) c
  | .math k o b c => .math k o (setArgsS r b) c
  | .cmd e n a1 a2 a3 a4 =>
      let all := tag .bracket a1 ++ (tag .brace a2 ++ (tag .bracket a3 ++ tag .brace a4))
      if r.pc e n && kindsAre .bracket (pick r.i1 all) && kindsAre .brace (pick r.i2 all)
          && kindsAre .bracket (pick r.i3 all) && kindsAre .brace (pick r.i4 all) then
        .cmd e n (untag (pick r.i1 all)) (untag (pick r.i2 all)) (untag (pick r.i3 all))
          (untag (pick r.i4 all))
      else .cmd e n (setArgsA r a1) (setArgsA r a2) (setArgsA r a3) (setArgsA r a4)
  | .item e n a1 a2 a3 a4 b =>
      .item e n (setArgsA r a1) (setArgsA r a2) (setArgsA r a3) (setArgsA r a4) (setArgsS r b)
  | .env e bg nm a2 a3 a4 b e2 en nm2 =>
      let all := tag .brace a2 ++ (tag .bracket a3 ++ tag .brace a4)
      if r.pe e nm.nt && r.i1.isEmpty && kindsAre .brace (pick r.i2 all)
          && kindsAre .bracket (pick r.i3 all) && kindsAre .brace (pick r.i4 all) then
        .env e bg nm (untag (pick r.i2 all)) (untag (pick r.i3 all)) (untag (pick r.i4 all))
          b e2 en nm2
      else .env e bg nm (setArgsA r a2) (setArgsA r a3) (setArgsA r a4) (setArgsS r b) e2 en nm2
  | .venv e bg nm a2 a3 a4 vb e5 =>
      .venv e bg nm (setArgsA r a2) (setArgsA r a3) (setArgsA r a4) vb e5
def setArgsS (r : SetA) : List Elem → List Elem
  | [] => []
  | e :: es => setArgs r e :: setArgsS r es
def setArgsArg (r : SetA) : Arg → Arg
  | .mk sp o b c => .mk sp o (setArgsS r b) c
def setArgsA (r : SetA) : List Arg → List Arg
  | [] => []
  | a :: as => setArgsArg r a :: setArgsA r as
end

def setArgsD (r : SetA) (d : Doc) : Doc := setArgsS r d

def SetA.ofQ (qc qe : Str → Int → Bool) (i1 i2 i3 i4 : List Nat) : SetA :=
  ⟨fun esc n => qc n.text esc.pos, fun esc nt => qe nt.text esc.pos, i1, i2, i3, i4⟩

/-! ### `node.string = s` -/

/-- What to re-string: `pc esc name` selects commands, `pe esc nt` environments; `tk` is the new
text leaf (one token). -/
structure SetS where
  pc : Tok → Tok → Bool
  pe : Tok → Tok → Bool
  tk : Tok

/-- the argument group with the one leaf `tk` as its contents -/
def Arg.setLeaf (tk : Tok) : Arg → Arg
  | .mk sp o _ c => .mk sp o [.leaf tk] c

/-- the body is one leaf -/
def oneLeaf : List Elem → Bool
  | [.leaf _] => true
  | _ => false

mutual
/-- `node.string = s` on the selected commands with exactly one argument group (its contents
become the one leaf) and on the selected environments without arguments whose body is one leaf
(the body becomes the one leaf). `\item`s and verbatim-like environments are not touched. -/
def setStr (r : SetS) : Elem → Elem
  | .leaf t => .leaf t
  | .group o b c => .group o (setStrS r b) c
  | .math k o b c => .math k o (setStrS r b) c
  | .cmd e n a1 a2 a3 a4 =>
      if r.pc e n && (a1.length + a2.length + a3.length + a4.length == 1) then
        .cmd e n (a1.map (Arg.setLeaf r.tk)) (a2.map (Arg.setLeaf r.tk)) (a3.map (Arg.setLeaf r.tk))
          (a4.map (Arg.setLeaf r.tk))
      else .cmd e n (setStrA r a1) (setStrA r a2) (setStrA r a3) (setStrA r a4)
  | .item e n a1 a2 a3 a4 b =>
      .item e n (setStrA r a1) (setStrA r a2) (setStrA r a3) (setStrA r a4) (setStrS r b)
  | .env e bg nm a2 a3 a4 b e2 en nm2 =>
      if r.pe e nm.nt && a2.isEmpty && a3.isEmpty && a4.isEmpty && oneLeaf b then
        .env e bg nm [] [] [] [.leaf r.tk] e2 en nm2
      else .env e bg nm (setStrA r a2) (setStrA r a3) (setStrA r a4) (setStrS r b) e2 en nm2
  | .venv e bg nm a2 a3 a4 vb e5 =>
      .venv e bg nm (setStrA r a2) (setStrA r a3) (setStrA r a4) vb e5
def setStrS (r : SetS) : List Elem → List Elem
  | [] => []
  | e :: es => setStr r e :: setStrS r es
def setStrArg (r : SetS) : Arg → Arg
  | .mk sp o b c => .mk sp o (setStrS r b) c
def setStrA (r : SetS) : List Arg → List Arg
  | [] => []
  | a :: as => setStrArg r a :: setStrA r as
end

def setStrD (r : SetS) (d : Doc) : Doc := setStrS r d

/-- selection by what the tree shows of a node; the new leaf carries `s` at position `np` -/
def SetS.ofQ (qc qe : Str → Int → Bool) (s : Str) (np : Nat) : SetS :=
  ⟨fun esc n => qc n.text esc.pos, fun esc nt => qe nt.text esc.pos, ⟨s, np, .Text⟩⟩

mutual
/-- Command names are written without surrounding blanks (true of every tokenizer output; the
tree shows `strip name`). -/
def cmdNamesPlain : Elem → Bool
  | .leaf _ => true
  | .group _ b _ => cmdNamesPlainS b
  | .math _ _ b _ => cmdNamesPlainS b
  | .cmd _ n a1 a2 a3 a4 =>
      strip n.text == n.text && cmdNamesPlainA a1 && cmdNamesPlainA a2 && cmdNamesPlainA a3 && cmdNamesPlainA a4
  | .item _ n a1 a2 a3 a4 b =>
      strip n.text == n.text && cmdNamesPlainA a1 && cmdNamesPlainA a2 && cmdNamesPlainA a3 && cmdNamesPlainA a4
      && cmdNamesPlainS b
  | .env _ _ _ a2 a3 a4 b _ _ _ =>
      cmdNamesPlainA a2 && cmdNamesPlainA a3 && cmdNamesPlainA a4 && cmdNamesPlainS b
  | .venv _ _ _ a2 a3 a4 _ _ => cmdNamesPlainA a2 && cmdNamesPlainA a3 && cmdNamesPlainA a4
def cmdNamesPlainS : List Elem → Bool
  | [] => true
  | e :: es => cmdNamesPlain e && cmdNamesPlainS es
def cmdNamesPlainArg : Arg → Bool
  | .mk _ _ b _ => cmdNamesPlainS b
def cmdNamesPlainA : List Arg → Bool
  | [] => true
  | a :: as => cmdNamesPlainArg a && cmdNamesPlainA as
end

end TexSoup.Gram
