import TexSoupModel.Tree
/-!
# Model of the navigation views and of search (`TexNode`/`TexExpr` in `TexSoup/data.py`)

A view of a node is a list of sub-expressions in the order in which the Python properties
yield them. The root `[tex]` environment is represented by its content list.
-/
namespace TexSoup

def Expr.isText : Expr → Bool
  | .text _ _ => true
  | _ => false

/-- whitespace-only text, which `contents` drops -/
def Expr.isBlankText : Expr → Bool
  | .text s _ => isBlank s
  | _ => false

def dropBlank (l : List Expr) : List Expr := l.filter (fun e => !e.isBlankText)

mutual
/-- `expr.all`: (filtered) contents of every argument, then the expression's own contents. -/
def allOf : Expr → List Expr
  | .text _ _ => []
  | .cmd _ a b _ => argsContents a ++ b
  | .nenv _ a b _ => argsContents a ++ b
  | .math _ b _ => b
  | .group _ b _ => b
/-- `for arg in args: for e in arg.contents` -/
def argsContents : List Expr → List Expr
  | [] => []
  | a :: as => dropBlank (allOf a) ++ argsContents as
end

/-- `expr.contents` / `node.contents`: `all` without whitespace-only text. -/
def contentsOf (e : Expr) : List Expr := dropBlank (allOf e)

/-- `node.children`: contents that are not text. -/
def childrenOf (e : Expr) : List Expr := (contentsOf e).filter (fun x => !x.isText)

mutual
/-- `node.descendants`: `chain(contents, *[c.descendants for c in children])`. -/
def descOf : Expr → List Expr
  | .text _ _ => []
  | .cmd n a b p => contentsOf (.cmd n a b p) ++ (descArgs a ++ descList b)
  | .nenv n a b p => contentsOf (.nenv n a b p) ++ (descArgs a ++ descList b)
  | .math _ b _ => dropBlank b ++ descList b
  | .group _ b _ => dropBlank b ++ descList b
/-- descendants of every element of a content list (text contributes nothing) -/
def descList : List Expr → List Expr
  | [] => []
  | e :: es => descOf e ++ descList es
/-- descendants of the children found in the contents of each argument -/
def descArgs : List Expr → List Expr
  | [] => []
  | a :: as => descInner a ++ descArgs as
/-- descendants of the children among `allOf e` -/
def descInner : Expr → List Expr
  | .text _ _ => []
  | .cmd _ a b _ => descArgs a ++ descList b
  | .nenv _ a b _ => descArgs a ++ descList b
  | .math _ b _ => descList b
  | .group _ b _ => descList b
end

/-- descendants of the root -/
def descRoot (es : List Expr) : List Expr := dropBlank es ++ descList es

mutual
/-- `node.text`: non-blank text leaves, in the order of the `contents` traversal. -/
def textOf : Expr → List Expr
  | .text _ _ => []
  | .cmd _ a b _ => textArgs a ++ textList b
  | .nenv _ a b _ => textArgs a ++ textList b
  | .math _ b _ => textList b
  | .group _ b _ => textList b
def textList : List Expr → List Expr
  | [] => []
  | .text s p :: es => (if isBlank s then [] else [.text s p]) ++ textList es
  | e :: es => textOf e ++ textList es
def textArgs : List Expr → List Expr
  | [] => []
  | a :: as => textOf a ++ textArgs as
end

def textRoot (es : List Expr) : List Expr := textList es

/-! ## Search -/

/-- `TexEnv` subclasses (`TexNamedEnv`, the math environments, the groups). -/
def Expr.isEnv : Expr → Bool
  | .nenv _ _ _ _ | .math _ _ _ | .group _ _ _ => true
  | _ => false

/-- `env.begin` -/
def Expr.beginStr : Expr → Str
  | .nenv n _ _ _ => strBegin ++ (n ++ [125])
  | .math k _ _ => k.open
  | .group k _ _ => k.open
  | _ => []
/-- `env.end` -/
def Expr.endStr : Expr → Str
  | .nenv n _ _ _ => strEnd ++ (n ++ [125])
  | .math k _ _ => k.close
  | .group k _ _ => k.close
  | _ => []

inductive Query where
  | name (s : Str)
  | names (l : List Str)
  deriving Repr, DecidableEq

/-- `expr.__match__(name)` for a non-text expression (no extra attributes). -/
def matchesQ (q : Query) (e : Expr) : Bool :=
  match q with
  | .name s =>
    (e.isEnv && (s == e.name || s == e.beginStr ++ serL e.args || s == e.beginStr
        || s == e.endStr))
    || (if s.contains 123 || s.contains 91 then ser e == s else e.name == s)
  | .names l =>
    -- `'{' in name` on a list is element membership
    if l.contains [123] || l.contains [91] then false else l.contains e.name

/-- `find_all`: matching descendants (text leaves have no `__match__`). -/
def findAllIn (q : Query) (desc : List Expr) : List Expr :=
  desc.filter (fun e => !e.isText && matchesQ q e)

def findAll (q : Query) (e : Expr) : List Expr := findAllIn q (descOf e)
def findAllRoot (q : Query) (es : List Expr) : List Expr := findAllIn q (descRoot es)
def find (q : Query) (e : Expr) : Option Expr := (findAll q e).head?
def count (q : Query) (e : Expr) : Nat := (findAll q e).length

end TexSoup
