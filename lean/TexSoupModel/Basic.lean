import TexSoupModel.Generated.Tables
/-!
# Basic vocabulary of the TexSoup model

Characters are *code points as naturals* (Python strings may hold lone surrogates, and
property C19 ranges over all 1,114,112 code points); strings are lists of them.
-/
namespace TexSoup

abbrev Ch := Nat
abbrev Str := List Ch

/-- `utils.Token` as the pipeline uses it: text, source offset, category. -/
structure Tok where
  text : Str
  pos  : Nat
  cat  : TC
  deriving DecidableEq, Repr, Inhabited

/-- Association-list lookup with default (first match wins). -/
def lookupD {β : Type} : List (Nat × β) → Nat → β → β
  | [], _, d => d
  | (k', v) :: r, k, d => if k = k' then v else lookupD r k d

/-- `category.categorize` for one character: first matching entry of
`CATEGORY_CODES`, otherwise `Other`. -/
def catOf (c : Ch) : CC := lookupD Tables.catTable c .Other

/-- `categorize(s)`: every character with its own index and category. -/
def categorizeFrom : Nat → Str → List (Ch × Nat × CC)
  | _, [] => []
  | i, c :: r => (c, i, catOf c) :: categorizeFrom (i + 1) r

def categorize (s : Str) : List (Ch × Nat × CC) := categorizeFrom 0 s

/-- Is `p` a prefix of `l` (`str.startswith`)? -/
def isPrefix : Str → Str → Bool
  | [], _ => true
  | _ :: _, [] => false
  | a :: p, b :: l => a == b && isPrefix p l

/-- Membership in a list of strings (`name in TABLE`). -/
def memStr (s : Str) : List Str → Bool
  | [] => false
  | t :: r => s == t || memStr s r

/-- Length of the longest prefix all of whose elements satisfy `p`. -/
def countWhile (p : Ch → Bool) : Str → Nat
  | [] => 0
  | c :: r => if p c then countWhile p r + 1 else 0

/-- `str.isspace()` for one character. -/
def isSpaceCh (c : Ch) : Bool := Tables.spaceChars.contains c

/-- `s.isspace()`: non-empty and only whitespace. -/
def isBlank (s : Str) : Bool := !s.isEmpty && s.all isSpaceCh

def dropWhileSpace : Str → Str
  | [] => []
  | c :: r => if isSpaceCh c then dropWhileSpace r else c :: r

/-- `str.strip()`. -/
def strip (s : Str) : Str := (dropWhileSpace (dropWhileSpace s).reverse).reverse

/-- Concatenate the texts of a token list (`''.join`). -/
def flat : List Tok → Str
  | [] => []
  | t :: r => t.text ++ flat r

end TexSoup
