import TexSoupModel.Tok
import TexSoupModel.Tree
/-!
# Model of `TexSoup/reader.py` and `TexSoup/tex.py` (after the repairs)

Readers work on the list of remaining tokens and return the parsed value together with the
tokens left. Look-ahead by parsing (`make_read_peek`) is "run the reader, drop the remainder".
Recursion is on a fuel that bounds the *depth* of the call chain (loop iterations count as
depth); `parseFuel` always suffices (theorem `parse_fuel_sufficient`).
Python exceptions are values of `Err`.
-/
namespace TexSoup

inductive Err where
  | eof        -- EOFError: unclosed environment / math region
  | type       -- TypeError: malformed argument
  | assertion  -- AssertionError: \begin without name, \item in math mode
  | internal   -- anything else (StopIteration/RuntimeError, KeyError, ...): must never happen
  | fuel       -- the model ran out of fuel: must never happen with `parseFuel`
  deriving DecidableEq, Repr, Inhabited

inductive Mode where
  | nonMath | math | special
  deriving DecidableEq, Repr, Inhabited

abbrev Res (α : Type) := Except Err (α × List Tok)

def sItem  : Str := [105, 116, 101, 109]
def sBegin : Str := [98, 101, 103, 105, 110]
def sEnd   : Str := [101, 110, 100]

/-- `SIGNATURES.get(name, (-1, -1))`. -/
def signatureOf (name : Str) : List (Str × (Int × Int)) → Int × Int
  | [] => (-1, -1)
  | (n, sg) :: r => if name == n then sg else signatureOf name r

/-- `read_spacer`: the next token if it is a `MergedSpacer`. -/
def readSpacer : List Tok → Bool × List Tok
  | t :: r => if t.cat == .MergedSpacer then (true, r) else (false, t :: r)
  | [] => (false, [])

/-- `'\\end{%s}' % name`. -/
def endMarker (name : Str) : Str := strEnd ++ (name ++ [125])

/-- `Buffer.startswith(s)` on a token buffer: the texts of the next `len(s)` *tokens*,
joined, start with `s`. -/
def bufStartsWith (s : Str) (ts : List Tok) : Bool := isPrefix s (flat (ts.take s.length))

/-- `forward_until(condition, peek=False)` of `read_skip_env`: split at the first token
boundary at which the remaining tokens spell the end marker. -/
def skipBody (marker : Str) : List Tok → List Tok × List Tok
  | [] => ([], [])
  | t :: r =>
    if bufStartsWith marker (t :: r) then ([], t :: r)
    else let (b, rest) := skipBody marker r; (t :: b, rest)

/-- `read_skip_env`. -/
def readSkipEnv (name : Str) (args : List Expr) (pos : Int) (ts : List Tok) : Res Expr :=
  let (body, rest) := skipBody (endMarker name) ts
  let bpos : Int := match ts with
    | t :: _ => t.pos
    | [] => -1
  if bufStartsWith (endMarker name) rest then
    .ok (.nenv name args [.text (flat body) bpos] pos, rest.drop 5)
  else .error .eof

mutual

/-- `read_expr`. -/
def readExpr : Nat → List Str → Bool → Mode → List Tok → Res Expr
  | 0, _, _, _, _ => .error .fuel
  | f + 1, skip, tol, mode, ts =>
    match ts with
    | [] => .error .internal
    | c :: ts =>
      match mkindOfBegin c.cat with
      | some k => readMathEnv f k c.pos tol ts
      | none =>
        if c.cat == .Escape then
          match readCommand f (-1) (-1) tol mode ts with
          | .error e => .error e
          | .ok ((name, args), ts1) =>
            if name.text == sItem then
              if mode == .math then .error .assertion
              else match readItem f ts1 with
                | .error e => .error e
                | .ok (body, ts2) => .ok (.cmd (strip name.text) args body c.pos, ts2)
            else if name.text == sBegin && mode != .special then
              match args with
              | [] => .error .assertion
              | a0 :: as =>
                let ename := strip a0.string
                let mode' := if memStr ename Tables.mathEnvNames then Mode.math else mode
                if memStr ename skip then readSkipEnv ename as c.pos ts1
                else readEnv f ename as c.pos skip tol mode' ts1
            else .ok (.cmd (strip name.text) args [] c.pos, ts1)
        else if c.cat == .GroupBegin then readArg f .brace c.pos tol .nonMath ts
        else .ok (.text c.text c.pos, ts)

/-- `read_item`: contents of an `\item` (always strict, non-math, no skipped environments). -/
def readItem : Nat → List Tok → Res (List Expr)
  | 0, _ => .error .fuel
  | f + 1, ts =>
    match ts with
    | [] => .ok ([], [])
    | t :: r =>
      if t.cat == .Escape then
        match readCommand f 1 (-1) false .nonMath r with
        | .error e => .error e
        | .ok ((name, _), _) =>
          if name.text == sEnd || name.text == sItem then .ok ([], t :: r)
          else readItemStep f (t :: r)
      else if t.cat == .GroupEnd then .ok ([], t :: r)
      else readItemStep f (t :: r)

/-- one iteration of the `read_item` loop: read an expression, continue. -/
def readItemStep : Nat → List Tok → Res (List Expr)
  | 0, _ => .error .fuel
  | f + 1, ts =>
    match readExpr f [] false .nonMath ts with
    | .error e => .error e
    | .ok (e, ts1) =>
      match readItem f ts1 with
      | .error e => .error e
      | .ok (es, ts2) => .ok (e :: es, ts2)

/-- `read_math_env`. -/
def readMathEnv : Nat → MKind → Int → Bool → List Tok → Res Expr
  | 0, _, _, _, _ => .error .fuel
  | f + 1, k, pos, tol, ts =>
    match readMathBody f k tol ts with
    | .error e => .error e
    | .ok (body, ts1) =>
      match ts1 with
      | [] => .error .eof
      | t :: r => if t.cat == k.tokEnd then .ok (.math k body pos, r) else .error .eof

/-- the `while` loop of `read_math_env`. -/
def readMathBody : Nat → MKind → Bool → List Tok → Res (List Expr)
  | 0, _, _, _ => .error .fuel
  | f + 1, k, tol, ts =>
    match ts with
    | [] => .ok ([], [])
    | t :: r =>
      if t.cat == k.tokEnd then .ok ([], t :: r)
      else match readExpr f [] tol .math (t :: r) with
        | .error e => .error e
        | .ok (e, ts1) =>
          match readMathBody f k tol ts1 with
          | .error e => .error e
          | .ok (es, ts2) => .ok (e :: es, ts2)

/-- `read_env`. -/
def readEnv : Nat → Str → List Expr → Int → List Str → Bool → Mode → List Tok → Res Expr
  | 0, _, _, _, _, _, _, _ => .error .fuel
  | f + 1, name, args, pos, skip, tol, mode, ts =>
    match readEnvBody f skip tol mode ts with
    | .error e => .error e
    | .ok ((body, endArgs), ts1) =>
      let error := match endArgs with
        | none => true
        | some [] => true
        | some (a0 :: _) => a0.string != name
      if error then
        if tol then .ok (.nenv name args body pos, ts1) else .error .eof
      else
        -- consume `\end`, an optional spacer and the name group
        match (readSpacer (ts1.drop 2)).2 with
        | [] => .error .internal
        | o :: r =>
          match gkindOfBegin o.cat with
          | none => .error .internal
          | some k =>
            match readArg f k o.pos tol mode r with
            | .error e => .error e
            | .ok (_, ts2) => .ok (.nenv name args body pos, ts2)

/-- the `while` loop of `read_env`: contents, and the arguments of the peeked `\end` if the
loop stopped at one. -/
def readEnvBody : Nat → List Str → Bool → Mode → List Tok →
    Res (List Expr × Option (List Expr))
  | 0, _, _, _, _ => .error .fuel
  | f + 1, skip, tol, mode, ts =>
    match ts with
    | [] => .ok (([], none), [])
    | t :: r =>
      if t.cat == .Escape then
        match readCommand f (-1) (-1) tol mode r with
        | .error e => .error e
        | .ok ((name, eargs), _) =>
          if name.text == sEnd then .ok (([], some eargs), t :: r)
          else readEnvStep f skip tol mode (t :: r)
      else readEnvStep f skip tol mode (t :: r)

def readEnvStep : Nat → List Str → Bool → Mode → List Tok →
    Res (List Expr × Option (List Expr))
  | 0, _, _, _, _ => .error .fuel
  | f + 1, skip, tol, mode, ts =>
    match readExpr f skip tol mode ts with
    | .error e => .error e
    | .ok (e, ts1) =>
      match readEnvBody f skip tol mode ts1 with
      | .error e => .error e
      | .ok ((es, ea), ts2) => .ok ((e :: es, ea), ts2)

/-- `read_command` after `skip` tokens have been skipped: name token and arguments. -/
def readCommand : Nat → Int → Int → Bool → Mode → List Tok → Res (Tok × List Expr)
  | 0, _, _, _, _, _ => .error .fuel
  | f + 1, nreq, nopt, tol, mode, ts =>
    let (name, ts1) : Tok × List Tok := match ts with
      | n :: r => (n, r)
      | [] => (⟨[], 0, .Text⟩, [])
    let mode' := if memStr name.text Tables.specialCommands then Mode.special else mode
    let (nreq', nopt') : Int × Int :=
      if nreq < 0 && nopt < 0 then signatureOf name.text Tables.signatures else (nreq, nopt)
    match readArgs f nreq' nopt' tol mode' ts1 with
    | .error e => .error e
    | .ok (args, ts2) => .ok ((name, args), ts2)

/-- `read_args`: optional*, required*, then optional* if a bracket follows, then required*
if a brace follows. -/
def readArgs : Nat → Int → Int → Bool → Mode → List Tok → Res (List Expr)
  | 0, _, _, _, _, _ => .error .fuel
  | f + 1, nreq, nopt, tol, mode, ts =>
    if nreq == 0 && nopt == 0 then .ok ([], ts)
    else
      match readArgOpt f nopt tol mode ts with
      | .error e => .error e
      | .ok ((a1, nopt1), ts1) =>
        match readArgReq f nreq tol mode ts1 with
        | .error e => .error e
        | .ok ((a2, nreq1), ts2) =>
          let third : Res (List Expr × Int) := match ts2 with
            | t :: _ => if t.cat == .BracketBegin then readArgOpt f nopt1 tol mode ts2
                        else .ok (([], nopt1), ts2)
            | [] => .ok (([], nopt1), ts2)
          match third with
          | .error e => .error e
          | .ok ((a3, _), ts3) =>
            let fourth : Res (List Expr × Int) := match ts3 with
              | t :: _ => if t.cat == .GroupBegin then readArgReq f nreq1 tol mode ts3
                          else .ok (([], nreq1), ts3)
              | [] => .ok (([], nreq1), ts3)
            match fourth with
            | .error e => .error e
            | .ok ((a4, _), ts4) => .ok (a1 ++ (a2 ++ (a3 ++ a4)), ts4)

/-- `read_arg_optional`: arguments read and the remaining count. -/
def readArgOpt : Nat → Int → Bool → Mode → List Tok → Res (List Expr × Int)
  | 0, _, _, _, _ => .error .fuel
  | f + 1, n, tol, mode, ts =>
    if n == 0 then .ok (([], n), ts)
    else
      let ts' := (readSpacer ts).2
      match ts' with
      | o :: r =>
        if o.cat == .BracketBegin then
          match readArg f .bracket o.pos tol mode r with
          | .error e => .error e
          | .ok (g, ts1) =>
            match readArgOpt f (n - 1) tol mode ts1 with
            | .error e => .error e
            | .ok ((gs, n'), ts2) => .ok ((g :: gs, n'), ts2)
        else .ok (([], n), ts)      -- spacer (if any) rolled back
      | [] => .ok (([], n), ts)

/-- `read_arg_required`. -/
def readArgReq : Nat → Int → Bool → Mode → List Tok → Res (List Expr × Int)
  | 0, _, _, _, _ => .error .fuel
  | f + 1, n, tol, mode, ts =>
    if n == 0 then .ok (([], n), ts)
    else match ts with
    | [] => .ok (([], n), ts)
    | _ :: _ =>
      let ts' := (readSpacer ts).2
      match ts' with
      | o :: r =>
        if o.cat == .GroupBegin then
          match readArg f .brace o.pos tol mode r with
          | .error e => .error e
          | .ok (g, ts1) =>
            match readArgReq f (n - 1) tol mode ts1 with
            | .error e => .error e
            | .ok ((gs, n'), ts2) => .ok ((g :: gs, n'), ts2)
        else if n > 0 then
          if o.cat == .Escape then
            -- a bare command as mandatory argument: `read_command(src, 0, 0)`
            match readCommand f 0 0 tol mode r with
            | .error e => .error e
            | .ok ((name, _), ts1) =>
              match readArgReq f (n - 1) tol mode ts1 with
              | .error e => .error e
              | .ok ((gs, n'), ts2) => .ok ((.cmd (strip name.text) [] [] o.pos :: gs, n'), ts2)
          else
            -- a bare token as mandatory argument: `'{%s}' % token`
            match readArgReq f (n - 1) tol mode r with
            | .error e => .error e
            | .ok ((gs, n'), ts2) => .ok ((.group .brace [.text o.text (-1)] (-1) :: gs, n'), ts2)
        else .ok (([], n), ts)
      | [] => .ok (([], n), ts)

/-- `read_arg` after its opening token: contents up to the matching closer. -/
def readArg : Nat → GKind → Int → Bool → Mode → List Tok → Res Expr
  | 0, _, _, _, _, _ => .error .fuel
  | f + 1, k, pos, tol, mode, ts =>
    match readArgBody f k tol mode ts with
    | .error e => .error e
    | .ok (body, ts1) => .ok (.group k body pos, ts1)

/-- the `while` loop of `read_arg`; consumes the closer. -/
def readArgBody : Nat → GKind → Bool → Mode → List Tok → Res (List Expr)
  | 0, _, _, _, _ => .error .fuel
  | f + 1, k, tol, mode, ts =>
    match ts with
    | [] => if tol then .ok ([], []) else .error .type
    | t :: r =>
      if t.cat == k.tokEnd then .ok ([], r)
      else match readExpr f [] tol mode (t :: r) with
        | .error e => .error e
        | .ok (e, ts1) =>
          match readArgBody f k tol mode ts1 with
          | .error e => .error e
          | .ok (es, ts2) => .ok (e :: es, ts2)

end

/-- `read_tex`: expressions until the buffer is exhausted. -/
def readTex : Nat → List Str → Bool → List Tok → Except Err (List Expr)
  | 0, _, _, _ => .error .fuel
  | f + 1, skip, tol, ts =>
    match ts with
    | [] => .ok []
    | _ :: _ =>
      match readExpr f skip tol .nonMath ts with
      | .error e => .error e
      | .ok (e, ts1) =>
        match readTex f skip tol ts1 with
        | .error e => .error e
        | .ok es => .ok (e :: es)

/-- Fuel that always suffices for a token list. -/
def parseFuel (ts : List Tok) : Nat := 4 * ts.length + 8

/-- `TexSoup(s, skip_envs, tolerance)` up to the root's contents. -/
def parse (tol : Bool) (skip : List Str) (s : Str) : Except Err (List Expr) :=
  match tokenize s with
  | none => .error .fuel
  | some ts => readTex (parseFuel ts) (Tables.skipEnvNames ++ skip) tol ts

end TexSoup
