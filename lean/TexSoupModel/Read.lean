import TexSoupModel.Tok
import TexSoupModel.Tree
/-!
# Model of `TexSoup/reader.py` and `TexSoup/tex.py` (after the repairs)

Readers work on the list of remaining tokens and return the parsed value together with the
tokens left. Look-ahead by parsing (`make_read_peek`) is "run the reader, drop the remainder".
Recursion is on a fuel that bounds the *depth* of the call chain (loop iterations count as
depth); `parseFuel` always suffices (theorem `parse_fuel_sufficient`).
Python exceptions are values of `Err`.
-/
namespace TexSoup

inductive Err where
  | eof        -- EOFError: unclosed environment / math region
  | type       -- TypeError: malformed argument
  | assertion  -- AssertionError: \begin without name, \item in math mode
  | internal   -- anything else (StopIteration/RuntimeError, KeyError, ...): must never happen
  | fuel       -- the model ran out of fuel: must never happen with `parseFuel`
  deriving DecidableEq, Repr, Inhabited

inductive Mode where
  | nonMath | math | special
  deriving DecidableEq, Repr, Inhabited

abbrev Res (α : Type) := Except Err (α × List Tok)

def sItem  : Str := [105, 116, 101, 109]
def sBegin : Str := [98, 101, 103, 105, 110]
def sEnd   : Str := [101, 110, 100]

/-- `SIGNATURES.get(name, (-1, -1))`. -/
def signatureOf (name : Str) : List (Str × (Int × Int)) → Int × Int
  | [] => (-1, -1)
  | (n, sg) :: r => if name == n then sg else signatureOf name r

/-- `read_spacer`: the next token if it is a `MergedSpacer`. -/
def readSpacer : List Tok → Bool × List Tok
  | t :: r => if t.cat == .MergedSpacer then (true, r) else (false, t :: r)
  | [] => (false, [])

/-- `'\\end{%s}' % name`. -/
def endMarker (name : Str) : Str := strEnd ++ (name ++ [125])

/-- `Buffer.startswith(s)` on a token buffer: the texts of the next `len(s)` *tokens*,
joined, start with `s`. -/
def bufStartsWith (s : Str) (ts : List Tok) : Bool := isPrefix s (flat (ts.take s.length))

/-- `forward_until(condition, peek=False)` of `read_skip_env`: split at the first token
boundary at which the remaining tokens spell the end marker. -/
def skipBody (marker : Str) : List Tok → List Tok × List Tok
  | [] => ([], [])
  | t :: r =>
    if bufStartsWith marker (t :: r) then ([], t :: r)
    else let (b, rest) := skipBody marker r; (t :: b, rest)

/-- `read_skip_env`. -/
def readSkipEnv (name : Str) (args : List Expr) (pos : Int) (ts : List Tok) : Res Expr :=
  let (body, rest) := skipBody (endMarker name) ts
  let bpos : Int := match ts with
    | t :: _ => t.pos
    | [] => -1
  if bufStartsWith (endMarker name) rest then
    .ok (.nenv name args [.text (flat body) bpos] pos, rest.drop 5)
  else .error .eof

/-- Signature used by `read_command`: the given counts, or the table entry when both are
negative. -/
def cmdSig (nreq nopt : Int) (name : Str) : Int × Int :=
  if nreq < 0 && nopt < 0 then signatureOf name Tables.signatures else (nreq, nopt)

/-- Mode in which `read_command` reads the arguments. -/
def cmdMode (name : Str) (mode : Mode) : Mode :=
  if memStr name Tables.specialCommands then .special else mode

/-- Is the next token of the given category? -/
def nextIs (c : TC) : List Tok → Bool
  | t :: _ => t.cat == c
  | [] => false

/-- Sequencing of readers: propagate the error, otherwise continue with value and rest. -/
@[inline] def Res.bind {α β : Type} (x : Res α) (k : α → List Tok → Res β) : Res β :=
  match x with
  | .error e => .error e
  | .ok (a, ts) => k a ts

/-- The consumption of a peeked `\end`: what `read_env` decides after its loop. -/
def envError (name : Str) : Option (List Expr) → Bool
  | none => true
  | some [] => true
  | some (a0 :: _) => a0.string != name

mutual

/-- `read_expr`. -/
def readExpr : Nat → List Str → Bool → Mode → List Tok → Res Expr
  | 0, _, _, _, _ => .error .fuel
  | f + 1, skip, tol, mode, ts =>
    match ts with
    | [] => .error .internal
    | c :: ts =>
      match mkindOfBegin c.cat with
      | some k => readMathEnv f k c.pos tol ts
      | none =>
        if c.cat == .Escape then
          (readCommand f (-1) (-1) tol mode ts).bind fun na ts1 =>
            if na.1.text == sItem then
              if mode == .math then .error .assertion
              else (readItem f ts1).bind fun body ts2 =>
                .ok (.cmd (strip na.1.text) na.2 body c.pos, ts2)
            else if na.1.text == sBegin && mode != .special then
              match na.2 with
              | [] => .error .assertion
              | a0 :: as =>
                if memStr (strip a0.string) skip then readSkipEnv (strip a0.string) as c.pos ts1
                else readEnv f (strip a0.string) as c.pos skip tol
                  (if memStr (strip a0.string) Tables.mathEnvNames then Mode.math else mode) ts1
            else .ok (.cmd (strip na.1.text) na.2 [] c.pos, ts1)
        else if c.cat == .GroupBegin then readArg f .brace c.pos tol .nonMath ts
        else .ok (.text c.text c.pos, ts)

/-- `read_item`: contents of an `\item` (always strict, non-math, no skipped environments). -/
def readItem : Nat → List Tok → Res (List Expr)
  | 0, _ => .error .fuel
  | f + 1, ts =>
    match ts with
    | [] => .ok ([], [])
    | t :: r =>
      if t.cat == .Escape then
        -- peek: `read_command(src, 0, 0, skip=1)`: only the name is read
        (readCommand f 0 0 false .nonMath r).bind fun na _ =>
          if na.1.text == sEnd || na.1.text == sItem then .ok ([], t :: r)
          else (readExpr f [] false .nonMath (t :: r)).bind fun e ts1 =>
            (readItem f ts1).bind fun es ts2 => .ok (e :: es, ts2)
      else if t.cat == .GroupEnd then .ok ([], t :: r)
      else (readExpr f [] false .nonMath (t :: r)).bind fun e ts1 =>
        (readItem f ts1).bind fun es ts2 => .ok (e :: es, ts2)

/-- `read_math_env`. -/
def readMathEnv : Nat → MKind → Int → Bool → List Tok → Res Expr
  | 0, _, _, _, _ => .error .fuel
  | f + 1, k, pos, tol, ts =>
    (readMathBody f k tol ts).bind fun body ts1 =>
      match ts1 with
      | [] => .error .eof
      | t :: r => if t.cat == k.tokEnd then .ok (.math k body pos, r) else .error .eof

/-- the `while` loop of `read_math_env`. -/
def readMathBody : Nat → MKind → Bool → List Tok → Res (List Expr)
  | 0, _, _, _ => .error .fuel
  | f + 1, k, tol, ts =>
    match ts with
    | [] => .ok ([], [])
    | t :: r =>
      if t.cat == k.tokEnd then .ok ([], t :: r)
      else (readExpr f [] tol .math (t :: r)).bind fun e ts1 =>
        (readMathBody f k tol ts1).bind fun es ts2 => .ok (e :: es, ts2)

/-- `read_env`. -/
def readEnv : Nat → Str → List Expr → Int → List Str → Bool → Mode → List Tok → Res Expr
  | 0, _, _, _, _, _, _, _ => .error .fuel
  | f + 1, name, args, pos, skip, tol, mode, ts =>
    (readEnvBody f skip tol mode ts).bind fun be ts1 =>
      if envError name be.2 then
        if tol then .ok (.nenv name args be.1 pos, ts1) else .error .eof
      else
        -- consume `\end` and its one argument: `read_command(src, 1, 0, skip=1)`
        match ts1 with
        | [] => .error .internal
        | _ :: r => (readCommand f 1 0 tol mode r).bind fun _ ts2 =>
            .ok (.nenv name args be.1 pos, ts2)

/-- the `while` loop of `read_env`: contents, and the arguments of the peeked `\end` if the
loop stopped at one. -/
def readEnvBody : Nat → List Str → Bool → Mode → List Tok →
    Res (List Expr × Option (List Expr))
  | 0, _, _, _, _ => .error .fuel
  | f + 1, skip, tol, mode, ts =>
    match ts with
    | [] => .ok (([], none), [])
    | t :: r =>
      if t.cat == .Escape then
        -- peek: `read_command(src, 1, 0, skip=1)`: `\end` takes exactly one argument
        (readCommand f 1 0 tol mode r).bind fun na _ =>
          if na.1.text == sEnd then .ok (([], some na.2), t :: r)
          else (readExpr f skip tol mode (t :: r)).bind fun e ts1 =>
            (readEnvBody f skip tol mode ts1).bind fun be ts2 => .ok ((e :: be.1, be.2), ts2)
      else (readExpr f skip tol mode (t :: r)).bind fun e ts1 =>
        (readEnvBody f skip tol mode ts1).bind fun be ts2 => .ok ((e :: be.1, be.2), ts2)

/-- `read_command` after `skip` tokens have been skipped: name token and arguments. -/
def readCommand : Nat → Int → Int → Bool → Mode → List Tok → Res (Tok × List Expr)
  | 0, _, _, _, _, _ => .error .fuel
  | f + 1, nreq, nopt, tol, mode, ts =>
    match ts with
    | [] => (readArgs f (cmdSig nreq nopt []).1 (cmdSig nreq nopt []).2 tol (cmdMode [] mode) []).bind
        fun args ts2 => .ok ((⟨[], 0, .Text⟩, args), ts2)
    | n :: r => (readArgs f (cmdSig nreq nopt n.text).1 (cmdSig nreq nopt n.text).2 tol
        (cmdMode n.text mode) r).bind fun args ts2 => .ok ((n, args), ts2)

/-- `read_args`: optional*, required*, then optional* if a bracket follows, then required*
if a brace follows. -/
def readArgs : Nat → Int → Int → Bool → Mode → List Tok → Res (List Expr)
  | 0, _, _, _, _, _ => .error .fuel
  | f + 1, nreq, nopt, tol, mode, ts =>
    if nreq == 0 && nopt == 0 then .ok ([], ts)
    else
      (readArgOpt f nopt tol mode ts).bind fun an1 ts1 =>
      (readArgReq f nreq tol mode ts1).bind fun an2 ts2 =>
      (if nextIs .BracketBegin ts2 then readArgOpt f an1.2 tol mode ts2 else .ok (([], an1.2), ts2)).bind
        fun an3 ts3 =>
      (if nextIs .GroupBegin ts3 then readArgReq f an2.2 tol mode ts3 else .ok (([], an2.2), ts3)).bind
        fun an4 ts4 => .ok (an1.1 ++ (an2.1 ++ (an3.1 ++ an4.1)), ts4)

/-- `read_arg_optional`: arguments read and the remaining count. -/
def readArgOpt : Nat → Int → Bool → Mode → List Tok → Res (List Expr × Int)
  | 0, _, _, _, _ => .error .fuel
  | f + 1, n, tol, mode, ts =>
    if n == 0 then .ok (([], n), ts)
    else
      match (readSpacer ts).2 with
      | o :: r =>
        if o.cat == .BracketBegin then
          (readArg f .bracket o.pos tol mode r).bind fun g ts1 =>
            (readArgOpt f (n - 1) tol mode ts1).bind fun gn ts2 => .ok ((g :: gn.1, gn.2), ts2)
        else .ok (([], n), ts)      -- spacer (if any) rolled back
      | [] => .ok (([], n), ts)

/-- `read_arg_required`. -/
def readArgReq : Nat → Int → Bool → Mode → List Tok → Res (List Expr × Int)
  | 0, _, _, _, _ => .error .fuel
  | f + 1, n, tol, mode, ts =>
    if n == 0 then .ok (([], n), ts)
    else
      match (readSpacer ts).2 with
      | o :: r =>
        if o.cat == .GroupBegin then
          (readArg f .brace o.pos tol mode r).bind fun g ts1 =>
            (readArgReq f (n - 1) tol mode ts1).bind fun gn ts2 => .ok ((g :: gn.1, gn.2), ts2)
        else if n > 0 then
          if o.cat == .Escape then
            -- a bare command as mandatory argument: `read_command(src, 0, 0)`
            (readCommand f 0 0 tol mode r).bind fun na ts1 =>
              (readArgReq f (n - 1) tol mode ts1).bind fun gn ts2 =>
                .ok ((.cmd (strip na.1.text) [] [] o.pos :: gn.1, gn.2), ts2)
          else
            -- a bare token as mandatory argument: `'{%s}' % token`
            (readArgReq f (n - 1) tol mode r).bind fun gn ts2 =>
              .ok ((.group .brace [.text o.text (-1)] (-1) :: gn.1, gn.2), ts2)
        else .ok (([], n), ts)
      | [] => .ok (([], n), ts)

/-- `read_arg` after its opening token: contents up to the matching closer. -/
def readArg : Nat → GKind → Int → Bool → Mode → List Tok → Res Expr
  | 0, _, _, _, _, _ => .error .fuel
  | f + 1, k, pos, tol, mode, ts =>
    (readArgBody f k tol mode ts).bind fun body ts1 => .ok (.group k body pos, ts1)

/-- the `while` loop of `read_arg`; consumes the closer. -/
def readArgBody : Nat → GKind → Bool → Mode → List Tok → Res (List Expr)
  | 0, _, _, _, _ => .error .fuel
  | f + 1, k, tol, mode, ts =>
    match ts with
    | [] => if tol then .ok ([], []) else .error .type
    | t :: r =>
      if t.cat == k.tokEnd then .ok ([], r)
      else (readExpr f [] tol mode (t :: r)).bind fun e ts1 =>
        (readArgBody f k tol mode ts1).bind fun es ts2 => .ok (e :: es, ts2)

end

/-- `read_tex`: expressions until the buffer is exhausted. -/
def readTex : Nat → List Str → Bool → List Tok → Except Err (List Expr)
  | 0, _, _, _ => .error .fuel
  | f + 1, skip, tol, ts =>
    match ts with
    | [] => .ok []
    | _ :: _ =>
      match readExpr f skip tol .nonMath ts with
      | .error e => .error e
      | .ok (e, ts1) =>
        match readTex f skip tol ts1 with
        | .error e => .error e
        | .ok es => .ok (e :: es)

/-- Fuel that always suffices for a token list. -/
def parseFuel (ts : List Tok) : Nat := 4 * ts.length + 8

/-- `TexSoup(s, skip_envs, tolerance)` up to the root's contents. -/
def parse (tol : Bool) (skip : List Str) (s : Str) : Except Err (List Expr) :=
  match tokenize s with
  | none => .error .fuel
  | some ts => readTex (parseFuel ts) (Tables.skipEnvNames ++ skip) tol ts

end TexSoup
