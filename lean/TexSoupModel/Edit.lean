import TexSoupModel.Path
import TexSoupModel.Read
/-!
# Model of the tree edits of `TexNode` (after the repairs: targets are located by identity)

An edit names its target by path; new material is a list of expressions (a plain Python
string `s` is the leaf `.text s (-1)`). `none` = the Python call raises and leaves the tree
unchanged.
-/
namespace TexSoup

/-- `_supports_contents`: everything except commands other than `\item`. -/
def Expr.supportsContents : Expr → Bool
  | .cmd n _ _ _ => n == sItem
  | .text _ _ => false
  | _ => true

inductive EditOp where
  | delete (p : Path)                          -- node.delete()  /  parent.remove(node)
  | replace (p : Path) (ns : List Expr)        -- node.replace_with(*ns) / parent.replace(node, *ns)
  | insert (c : Path) (i : Nat) (ns : List Expr)   -- container.insert(i, *ns), 0 ≤ i
  | append (c : Path) (ns : List Expr)         -- container.append(*ns)
  | rename (p : Path) (n : Str)                -- node.name = n  (commands and named environments)
  | setString (p : Path) (s : Str)             -- node.string = s
  | setArgs (p : Path) (as : List Expr)        -- node.args = TexArgs(as)
  deriving Repr

def splitLast : Path → Option (Path × Step)
  | [] => none
  | [st] => some ([], st)
  | st :: p => match splitLast p with
    | some (q, l) => some (st :: q, l)
    | none => none

def deleteAt (j : Nat) (l : List Expr) : Option (List Expr) :=
  if j < l.length then some (l.eraseIdx j) else none

def replaceAt (ns : List Expr) (j : Nat) (l : List Expr) : Option (List Expr) :=
  if j < l.length then some (l.take j ++ (ns ++ l.drop (j + 1))) else none

/-- `_contents.insert(i + k, n_k)` for k = 0, 1, ... with 0 ≤ i (list.insert clamps). -/
def insertAt (i : Nat) (ns : List Expr) (l : List Expr) : List Expr :=
  l.take i ++ (ns ++ l.drop i)

def renameE (n : Str) : Expr → Option Expr
  | .cmd _ a b p => some (.cmd n a b p)
  | .nenv _ a b p => some (.nenv n a b p)
  | _ => none

def setStringE (s : Str) : Expr → Option Expr
  | .cmd n [a] b p => some (.cmd n [a.setBody [.text s (-1)]] b p)
  | .cmd _ _ _ _ => none
  | .text _ _ => none
  | e => match contentsOf e with
    | [.text _ _] => some (e.setBody [.text s (-1)])
    | _ => none

def setArgsE (as : List Expr) : Expr → Option Expr
  | .cmd n _ b p => some (.cmd n as b p)
  | .nenv n _ b p => some (.nenv n as b p)
  | _ => none

/-- The holder addressed by `st` (the node itself for `body`, its `i`-th argument for `arg`)
must support contents: `TexExpr.remove`/`insert` start with `_assert_supports_contents`, so a
command that is not (or no longer, after a rename) called `item` refuses to give up or
replace an element of its body (`TypeError`, nothing changed). -/
def holderOK (e : Expr) : Step → Bool
  | .body _ => e.supportsContents
  | .arg i _ => match e.args[i]? with
    | some a => a.supportsContents
    | none => false

/-- `editHolder`, guarded by `holderOK`. -/
def editHolderG (e : Expr) (st : Step) (g : Nat → List Expr → Option (List Expr)) : Option Expr :=
  if holderOK e st then editHolder e st g else none

/-- One edit on the wrapped root. -/
def applyEditE (r : Expr) : EditOp → Option Expr
  | .delete p => match splitLast p with
    | some (q, st) => updAt r q (fun e => editHolderG e st deleteAt)
    | none => none
  | .replace p ns => match splitLast p with
    | some (q, st) => updAt r q (fun e => editHolderG e st (replaceAt ns))
    | none => none
  | .insert c i ns => updAt r c (fun e =>
      if e.supportsContents then some (e.setBody (insertAt i ns e.body)) else none)
  | .append c ns => updAt r c (fun e =>
      if e.supportsContents then some (e.setBody (e.body ++ ns)) else none)
  | .rename p n => if p.isEmpty then none else updAt r p (renameE n)
  | .setString p s => if p.isEmpty then none else updAt r p (setStringE s)
  | .setArgs p as => if p.isEmpty then none else updAt r p (setArgsE as)

/-- One edit on a document (the root's content list); a failing edit leaves it unchanged. -/
def applyEdit (es : List Expr) (op : EditOp) : List Expr :=
  match applyEditE (rootWrap es) op with
  | some r => r.body
  | none => es

def applyEdits (es : List Expr) (ops : List EditOp) : List Expr := ops.foldl applyEdit es

end TexSoup
