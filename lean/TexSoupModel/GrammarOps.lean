import TexSoupModel.Grammar
/-!
# Operations on grammar documents

`squeeze` removes exactly the tokens the reader drops: the optional spacer in front of every
argument group and of the `{name}` after `\begin` / `\end`. The serialisation of the tree of a
document is the text of the squeezed document (`TexSoupProofs/Properties/C16Grammar.lean`).

`mapComments f` replaces the text of every comment leaf by `f` of it
(`TexSoupProofs/Properties/C10Grammar.lean`).
-/
namespace TexSoup.Gram
open TexSoup

def NameArg.squeeze (n : NameArg) : NameArg := { n with sp := none }

mutual
/-- Drop the optional spacer in front of every argument group and name group. -/
def squeeze : Elem → Elem
  | .leaf t => .leaf t
  | .group o b c => .group o (squeezeS b) c
  | .math k o b c => .math k o (squeezeS b) c
  | .cmd e n a1 a2 a3 a4 => .cmd e n (squeezeA a1) (squeezeA a2) (squeezeA a3) (squeezeA a4)
  | .item e n a1 a2 a3 a4 b =>
      .item e n (squeezeA a1) (squeezeA a2) (squeezeA a3) (squeezeA a4) (squeezeS b)
  | .env e bg nm a2 a3 a4 b e2 en nm2 =>
      .env e bg nm.squeeze (squeezeA a2) (squeezeA a3) (squeezeA a4) (squeezeS b) e2 en nm2.squeeze
  | .venv e bg nm a2 a3 a4 vb e5 =>
      .venv e bg nm.squeeze (squeezeA a2) (squeezeA a3) (squeezeA a4) vb e5
def squeezeS : List Elem → List Elem
  | [] => []
  | e :: es => squeeze e :: squeezeS es
def squeezeArg : Arg → Arg
  | .mk _ o b c => .mk none o (squeezeS b) c
def squeezeA : List Arg → List Arg
  | [] => []
  | a :: as => squeezeArg a :: squeezeA as
end

def squeezeD (d : Doc) : Doc := squeezeS d

/-! ### canonical spelling -/

def NameArg.canon (n : NameArg) : Bool := n.o.text == [123] && n.c.text == [125]

mutual
/-- The structural tokens are spelled the way the serialiser spells them (`\`, `{`, `}`, `[`,
`]`, `$`, …), command names have no blanks at their ends, environment names are written
without surrounding blanks and identically after `\begin` and `\end`. True of every document
whose tokens come from the tokenizer, except for blanks inside `\begin{ name }`. -/
def canon : Elem → Bool
  | .leaf _ => true
  | .group o b c => o.text == [123] && c.text == [125] && canonS b
  | .math k o b c => o.text == k.open && c.text == k.close && canonS b
  | .cmd e n a1 a2 a3 a4 =>
      e.text == [92] && strip n.text == n.text
      && canonA .bracket a1 && canonA .brace a2 && canonA .bracket a3 && canonA .brace a4
  | .item e n a1 a2 a3 a4 b =>
      e.text == [92] && strip n.text == n.text
      && canonA .bracket a1 && canonA .brace a2 && canonA .bracket a3 && canonA .brace a4 && canonS b
  | .env e bg nm a2 a3 a4 b e2 en nm2 =>
      e.text == [92] && bg.text == sBegin && nm.canon && strip nm.nt.text == nm.nt.text
      && canonA .brace a2 && canonA .bracket a3 && canonA .brace a4 && canonS b
      && e2.text == [92] && en.text == sEnd && nm2.canon && nm2.nt.text == nm.nt.text
  | .venv e bg nm a2 a3 a4 _ e5 =>
      e.text == [92] && bg.text == sBegin && nm.canon && strip nm.nt.text == nm.nt.text
      && canonA .brace a2 && canonA .bracket a3 && canonA .brace a4
      && flat e5 == endMarker nm.nt.text
def canonS : List Elem → Bool
  | [] => true
  | e :: es => canon e && canonS es
def canonArg (k : GKind) : Arg → Bool
  | .mk _ o b c => o.text == k.open && c.text == k.close && canonS b
def canonA (k : GKind) : List Arg → Bool
  | [] => true
  | a :: as => canonArg k a && canonA k as
end

def canonD (d : Doc) : Bool := canonS d

mutual
/-- Environment names are written without surrounding blanks: `\begin{ a }` is read as
environment `a` and serialised as `\begin{a}`. -/
def envNamesPlain : Elem → Bool
  | .leaf _ => true
  | .group _ b _ => envNamesPlainS b
  | .math _ _ b _ => envNamesPlainS b
  | .cmd _ _ a1 a2 a3 a4 => envNamesPlainA a1 && envNamesPlainA a2 && envNamesPlainA a3 && envNamesPlainA a4
  | .item _ _ a1 a2 a3 a4 b =>
      envNamesPlainA a1 && envNamesPlainA a2 && envNamesPlainA a3 && envNamesPlainA a4 && envNamesPlainS b
  | .env _ _ nm a2 a3 a4 b _ _ _ =>
      strip nm.nt.text == nm.nt.text && envNamesPlainA a2 && envNamesPlainA a3 && envNamesPlainA a4
      && envNamesPlainS b
  | .venv _ _ nm a2 a3 a4 _ _ =>
      strip nm.nt.text == nm.nt.text && envNamesPlainA a2 && envNamesPlainA a3 && envNamesPlainA a4
def envNamesPlainS : List Elem → Bool
  | [] => true
  | e :: es => envNamesPlain e && envNamesPlainS es
def envNamesPlainArg : Arg → Bool
  | .mk _ _ b _ => envNamesPlainS b
def envNamesPlainA : List Arg → Bool
  | [] => true
  | a :: as => envNamesPlainArg a && envNamesPlainA as
end

/-- The comment token with another payload. -/
def mapCommentTok (f : Str → Str) (t : Tok) : Tok :=
  if t.cat == .Comment then { t with text := f t.text } else t

mutual
/-- Replace the text of every comment leaf (raw verbatim bodies are not touched: a `%` there is
no comment). -/
def mapComments (f : Str → Str) : Elem → Elem
  | .leaf t => .leaf (mapCommentTok f t)
  | .group o b c => .group o (mapCommentsS f b) c
  | .math k o b c => .math k o (mapCommentsS f b) c
  | .cmd e n a1 a2 a3 a4 =>
      .cmd e n (mapCommentsA f a1) (mapCommentsA f a2) (mapCommentsA f a3) (mapCommentsA f a4)
  | .item e n a1 a2 a3 a4 b =>
      .item e n (mapCommentsA f a1) (mapCommentsA f a2) (mapCommentsA f a3) (mapCommentsA f a4)
        (mapCommentsS f b)
  | .env e bg nm a2 a3 a4 b e2 en nm2 =>
      .env e bg nm (mapCommentsA f a2) (mapCommentsA f a3) (mapCommentsA f a4) (mapCommentsS f b)
        e2 en nm2
  | .venv e bg nm a2 a3 a4 vb e5 =>
      .venv e bg nm (mapCommentsA f a2) (mapCommentsA f a3) (mapCommentsA f a4) vb e5
def mapCommentsS (f : Str → Str) : List Elem → List Elem
  | [] => []
  | e :: es => mapComments f e :: mapCommentsS f es
def mapCommentsArg (f : Str → Str) : Arg → Arg
  | .mk sp o b c => .mk sp o (mapCommentsS f b) c
def mapCommentsA (f : Str → Str) : List Arg → List Arg
  | [] => []
  | a :: as => mapCommentsArg f a :: mapCommentsA f as
end

def mapCommentsD (f : Str → Str) (d : Doc) : Doc := mapCommentsS f d

end TexSoup.Gram
