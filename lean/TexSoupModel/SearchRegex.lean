import TexSoupModel.Nav
/-!
# Model of `TexNode.search_regex` (`TexSoup/data.py`)

    for node in self.text:
        for match in re.finditer(pattern, node, **kwargs):
            yield Token(match.group(), node.position + match.start())

The regular-expression engine is a parameter: `m text` lists the matches found in `text` as
pairs (start, length). `self.text` is `textOf` (`textRoot` at the root): the non-blank text
leaves of the transitive contents, in the order of the traversal.
-/
namespace TexSoup

/-- A regular-expression engine with a fixed pattern: the (start, length) of every match. -/
abbrev Matcher := Str → List (Nat × Nat)

/-- What `re.finditer` guarantees: every match lies inside the text. -/
def InBounds (m : Matcher) : Prop := ∀ t, ∀ kl ∈ m t, kl.1 + kl.2 ≤ t.length

/-- The matches inside one text leaf: `(node.position + match.start(), match.group())`. -/
def searchLeaf (m : Matcher) : Expr → List (Int × Str)
  | .text t q => (m t).map fun kl => (q + (kl.1 : Int), (t.drop kl.1).take kl.2)
  | _ => []

/-- `search_regex` over a list of text leaves. -/
def searchRegexIn (m : Matcher) (leaves : List Expr) : List (Int × Str) :=
  leaves.flatMap (searchLeaf m)

/-- `node.search_regex(pattern)`. -/
def searchRegexNode (m : Matcher) (e : Expr) : List (Int × Str) := searchRegexIn m (textOf e)

/-- `soup.search_regex(pattern)`. -/
def searchRegex (m : Matcher) (es : List Expr) : List (Int × Str) := searchRegexIn m (textRoot es)

end TexSoup
