import TexSoupModel.Edit
import TexSoupModel.ArgsEdit
/-!
# Driver request `edit` (differential check of the edit model against `TexNode`)

Request line (after the leading word `edit`, which `Driver.handle` strips):

    <encoded source> | <op>;<op>;...

Strings travel as decimal code points joined by `.` (`-` is the empty string), as in
`Driver.lean`.

* **Paths** `P`, `C`: `r` is the root container (the empty path); otherwise steps joined
  by `.`: `b<j>` = element `j` of the node's own `_contents`, `a<i>:<j>` = element `j` of the
  `_contents` of argument `i`.  Example: `b0.a1:2.b3`.
* **Material** `M`: `n:<encoded source>` = the first top-level element of
  `parse false [] source` (a node parsed elsewhere); `g:<encoded source>` = the first
  argument of that element (the only way to obtain a bracket group); `s:<encoded string>` =
  a plain Python string, i.e. `.text s (-1)`;
  `i:<encoded source>@<path>` = the node at `path` *inside* a separately parsed snippet
  (`getAtRoot (parse false [] source) path`: a node taken out of an argument, a group, an
  `\item` of another document); `c:<path>` = a copy of the node at `path` of the document as
  it is when the op is reached (`node.copy()`; a subtree is a value, so this is that value);
  `o:<path>` = that node itself, as navigation gives it (the same value; used for the target of
  a `rep` among its own replacement pieces: `x.replace_with('[', x, ']')`).
  `d:<encoded source>` = a whole parsed document handed in as one piece (`TexSoup(source)`
  itself).  The implementation nests its root as one element, which prints as its contents;
  the tree type of the model has no such node, so the model splices the elements of the
  document in its place: same serialisation, other tree - after a step with `d:` material only
  the serialisations are comparable (the harness uses it in the last step only).
  Lists of material are joined by `,`; the empty list is `_`.  An op whose material cannot be
  resolved (no such path) is answered `FAIL`, like an op the model rejects.
* **Ops**
  * `del P`            – `node.delete()` / `parent.remove(node)`
  * `rep P M,M..`      – `node.replace_with(..)` / `parent.replace(node, ..)`
  * `ins C i M,M..`    – `container.insert(i, ..)`; `i` is any integer (`-2`), resolved once like
    `list.insert` (`pyInsertIndex`, `ArgsEdit.lean`)
  * `app C M,M..`      – `container.append(..)`
  * `ren P name`       – `node.name = name` (encoded)
  * `str P string`     – `node.string = string` (encoded)
  * `args P M,M..`     – `node.args = TexArgs([..])`

  * `aop P <sub> ..`   – an operation on the node's argument list itself (`TexArgs`), answered
    as `.setArgs P l` with `l` the result of the same operation on a plain list
    (`ArgsEdit.lean`; `FAIL` when the list operation raises).  `<sub>`: `app M`, `ext M,M..`,
    `ins i M`, `pop i`, `rem i` (`args.remove(args[i])`), `rev`, `clr`, `rs` (`args = args[::-1]`),
    `sl i j` (`args = args[i:j]`), `perm i,j,..` (`_` = empty), and the self-assignment forms
    `same`, `srev`, `spop i`, `sins i M`, `sapp M` (`a = node.args; ..; node.args = a`).  Indices
    may be negative (`-3`), slice bounds may be omitted (`_`).  Kept slices (a slice is a copy):
    `ks lo hi <in-place op>` = `keep = args[lo:hi]; <op on args>; args = keep` with the op one of
    `rev`, `clr`, `pop i`, `ins i M`, `app M`, `set i M` (`args[i] = M`);
    `kc lo hi <op>` = `keep = args[lo:hi]; <op on keep>` (the node keeps its list) and
    `kca lo hi <op>` = the same followed by `args = keep`, with the op `pop i` or `rev`.  Here `s:<encoded string>` is an unparsed argument string that
    `TexArgs` turns into a group (`{z}`, `[w]`; whitespace is kept out of the list; anything
    else raises), other material must be a group or a command to enter the list.

Answer: `EDIT r1;r2;...;rn;[tree]` where `ri` is the encoded `str(soup)` after op `i`, or
`FAIL` if the model rejects the op (`applyEditE = none`; the document is unchanged), and
`[tree]` is the canonical S-expression of the final document.  `ERR ...` if the source does
not parse, `bad-edit` for a malformed request.
-/
namespace TexSoup.EditDrv
open TexSoup

def encStr (s : Str) : String :=
  if s.isEmpty then "-" else ".".intercalate (s.map toString)

def decStr (w : String) : Option Str :=
  if w == "-" then some []
  else (w.splitOn ".").mapM (fun x => x.toNat?)

def gk : GKind → String
  | .bracket => "bracket"
  | .brace => "brace"
def mk : MKind → String
  | .ddollar => "ddollar"
  | .dollar => "dollar"
  | .displaymath => "displaymath"
  | .math => "math"

mutual
partial def showExpr : Expr → String
  | .text s p => s!"(t {p} {encStr s})"
  | .cmd n a b p => s!"(c {encStr n} {p} [{showExprs a}] [{showExprs b}])"
  | .nenv n a b p => s!"(e {encStr n} {p} [{showExprs a}] [{showExprs b}])"
  | .math k b p => s!"(m {mk k} {p} [{showExprs b}])"
  | .group k b p => s!"(g {gk k} {p} [{showExprs b}])"
partial def showExprs (es : List Expr) : String := " ".intercalate (es.map showExpr)
end

def parseStep (w : String) : Option Step :=
  if w.startsWith "b" then (w.drop 1).toNat?.map Step.body
  else if w.startsWith "a" then
    match (w.drop 1).toString.splitOn ":" with
    | [i, j] => match i.toNat?, j.toNat? with
      | some i, some j => some (.arg i j)
      | _, _ => none
    | _ => none
  else none

def parsePath (w : String) : Option Path :=
  if w == "r" then some [] else (w.splitOn ".").mapM parseStep

def firstOf (w : String) : Option Expr :=
  match decStr w with
  | some s => match parse false [] s with
    | .ok (e :: _) => some e
    | _ => none
  | none => none

def innerOf (w : String) : Option Expr :=
  match w.splitOn "@" with
  | [src, sel] => match decStr src, parsePath sel with
    | some s, some p => match parse false [] s with
      | .ok es => getAtRoot es p
      | .error _ => none
    | _, _ => none
  | _ => none

/-- Material; `doc` is the document at the moment the op is applied (for `c:`). -/
def parseMat (doc : List Expr) (w : String) : Option Expr :=
  if w.startsWith "n:" then firstOf (w.drop 2).toString
  else if w.startsWith "g:" then
    match firstOf (w.drop 2).toString with
    | some e => e.args.head?
    | none => none
  else if w.startsWith "s:" then (decStr (w.drop 2).toString).map (fun s => Expr.text s (-1))
  else if w.startsWith "i:" then innerOf (w.drop 2).toString
  else if w.startsWith "c:" || w.startsWith "o:" then
    match parsePath (w.drop 2).toString with
    | some [] => none
    | some p => getAtRoot doc p
    | none => none
  else none

/-- One piece of material: one element, or (`d:`) the elements of a whole document. -/
def parsePiece (doc : List Expr) (w : String) : Option (List Expr) :=
  if w.startsWith "d:" then
    match decStr (w.drop 2).toString with
    | some s => match parse false [] s with
      | .ok es => some es
      | .error _ => none
    | none => none
  else (parseMat doc w).map (fun e => [e])

def parseMats (doc : List Expr) (w : String) : Option (List Expr) :=
  if w == "_" then some [] else ((w.splitOn ",").mapM (parsePiece doc)).map List.flatten

def parseInt (w : String) : Option Int :=
  if w.startsWith "-" then (w.drop 1).toNat?.map (fun n => -(n : Int)) else w.toNat?.map (fun n => (n : Int))

/-- Material of a `TexArgs` operation: `none` = `TypeError`, `some none` = accepted but kept out
of the list proper, `some (some e)` = enters the list. -/
def parseArgMat (doc : List Expr) (w : String) : Option (Option Expr) :=
  if w.startsWith "s:" then
    match decStr (w.drop 2).toString with
    | some s => if isBlank s then some none else (parseGroup s).map some
    | none => none
  else match parseMat doc w with
    | some (.text s _) => if isBlank s then some none else (parseGroup s).map some
    | some e => some (if isArgObj e then some e else none)
    | none => none

def parseArgMats (doc : List Expr) (w : String) : Option (List Expr) :=
  if w == "_" then some [] else
    ((w.splitOn ",").mapM (parseArgMat doc)).map (fun l => l.filterMap id)

/-- A slice bound: `_` = omitted. -/
def parseBound (w : String) : Option (Option Int) :=
  if w == "_" then some none else (parseInt w).map some

def parseListOp (doc : List Expr) : List String → Option ListOp
  | ["app", m] | ["sapp", m] => (parseArgMats doc m).map ListOp.extend
  | ["ext", m] => (parseArgMats doc m).map ListOp.extend
  | ["ins", i, m] | ["sins", i, m] => match parseInt i, parseArgMat doc m with
    | some i, some (some e) => some (.insert i e)
    | some _, some none => some .same
    | _, _ => none
  | ["pop", i] | ["spop", i] => (parseInt i).map ListOp.pop
  | ["rem", i] => (parseInt i).map ListOp.removeAt
  | ["rev"] | ["srev"] | ["rs"] => some .reverse
  | ["clr"] => some .clear
  | ["same"] => some .same
  | ["sl", i, j] => match parseBound i, parseBound j with
    | some i, some j => some (.slice i j)
    | _, _ => none
  | ["perm", idx] => if idx == "_" then some (.perm []) else ((idx.splitOn ",").mapM (fun (x : String) => x.toNat?)).map ListOp.perm
  | ["set", i, m] => match parseInt i, parseArgMat doc m with
    | some i, some (some e) => some (.set i e)
    | _, _ => none
  | "ks" :: lo :: hi :: rest => match parseBound lo, parseBound hi, parseListOp doc rest with
    | some lo, some hi, some g => some (.guard g (.slice lo hi))
    | _, _, _ => none
  | "kc" :: lo :: hi :: rest => match parseBound lo, parseBound hi, parseListOp doc rest with
    | some lo, some hi, some k => some (.guard (.within lo hi k) .same)
    | _, _, _ => none
  | "kca" :: lo :: hi :: rest => match parseBound lo, parseBound hi, parseListOp doc rest with
    | some lo, some hi, some k => some (.within lo hi k)
    | _, _, _ => none
  | _ => none

def parseOp (doc : List Expr) (w : String) : Option EditOp :=
  match w.splitOn " " with
  | "aop" :: p :: rest => match parsePath p, parseListOp doc rest with
    | some p, some op => argsOpEdit doc p op
    | _, _ => none
  | ["del", p] => (parsePath p).map EditOp.delete
  | ["rep", p, m] => match parsePath p, parseMats doc m with
    | some p, some m => some (.replace p m)
    | _, _ => none
  | ["ins", c, i, m] => match parsePath c, parseInt i, parseMats doc m with
    | some c, some i, some m => insertEdit doc c i m
    | _, _, _ => none
  | ["app", c, m] => match parsePath c, parseMats doc m with
    | some c, some m => some (.append c m)
    | _, _ => none
  | ["ren", p, n] => match parsePath p, decStr n with
    | some p, some n => some (.rename p n)
    | _, _ => none
  | ["str", p, s] => match parsePath p, decStr s with
    | some p, some s => some (.setString p s)
    | _, _ => none
  | ["args", p, m] => match parsePath p, parseMats doc m with
    | some p, some m => some (.setArgs p m)
    | _, _ => none
  | _ => none

def showErr : Err → String
  | .eof => "ERR EOF"
  | .type => "ERR TYPE"
  | .assertion => "ERR ASSERT"
  | .internal => "ERR INTERNAL"
  | .fuel => "ERR FUEL"

/-- Run the ops (each parsed against the document it meets), one answer per op. -/
def runOps : List Expr → List String → List String → List Expr × List String
  | es, [], acc => (es, acc.reverse)
  | es, w :: ws, acc =>
    match parseOp es w with
    | none => runOps es ws ("FAIL" :: acc)
    | some op =>
      match applyEditE (rootWrap es) op with
      | some _ =>
        let es' := applyEdit es op
        runOps es' ws (encStr (serL es') :: acc)
      | none => runOps (applyEdit es op) ws ("FAIL" :: acc)

end TexSoup.EditDrv

open TexSoup TexSoup.EditDrv in
/-- `edit <encoded source> | <op>;<op>;...` (the word `edit` already removed). -/
def editHandle (words : List String) : String :=
  match words with
  | src :: "|" :: rest =>
    let opsStr := " ".intercalate rest
    let opWords := if opsStr.isEmpty then [] else opsStr.splitOn ";"
    match decStr src with
    | some s =>
      match parse false [] s with
      | .ok es =>
        let (es', outs) := runOps es opWords []
        "EDIT " ++ ";".intercalate (outs ++ [s!"[{showExprs es'}]"])
      | .error e => showErr e
    | none => "bad-edit"
  | _ => "bad-edit"
