import TexSoupModel.GrammarOps
/-!
# Recognising a grammar document in a token list (certificate search)

`recognizeE skip ts es` rebuilds a `Gram.Doc` from the token list `ts` and the tree `es` the
model's own `parse` produced for it, following the tree: a text leaf is the next token, a group
or math region is its opener, its body, its closer, a command is the backslash, the name token
and its argument groups (split into the four runs by kind; a spacer token directly in front of an
opener belongs to the argument), `\item` owns its contents, an environment is `\begin`, the name
group, arguments, body, `\end`, name group – or raw tokens up to the five closing tokens when the
name is in the skip list in force.

This is an UNTRUSTED search procedure: nothing is proved about it and nothing needs to be. Its
output is validated by evaluating the hypotheses of the completeness theorems on it
(`toksD d == ts`, `WFD …`, …; `C02.cert_sound`).
-/
namespace TexSoup.Gram
open TexSoup

abbrev RM := StateT (List Tok) (Except String)

def rmNext (why : String) : RM Tok := do
  match (← get) with
  | t :: r => set r; pure t
  | [] => throw why

def rmPeek2 : RM (Option Tok × Option Tok) := do
  match (← get) with
  | [] => pure (none, none)
  | [t] => pure (some t, none)
  | t :: u :: _ => pure (some t, some u)

/-- raw tokens whose texts spell `raw` -/
partial def rmTakeRaw (raw : Str) : RM (List Tok) := do
  if raw.isEmpty then pure []
  else
    let t ← rmNext "verbatim-body-short"
    if t.text.isEmpty || !isPrefix t.text raw then throw "verbatim-body-mismatch"
    else
      let r ← rmTakeRaw (raw.drop t.text.length)
      pure (t :: r)

def rmTake5 : RM (List Tok) := do
  let a ← rmNext "verbatim-unclosed"; let b ← rmNext "verbatim-unclosed"; let c ← rmNext "verbatim-unclosed"
  let d ← rmNext "verbatim-unclosed"; let e ← rmNext "verbatim-unclosed"
  pure [a, b, c, d, e]

/-- `{name}` after an optional spacer; the name must be a single token -/
def rmName : RM NameArg := do
  let (t0, _) ← rmPeek2
  let sp ← match t0 with
    | some t => if t.cat == .MergedSpacer then do let s ← rmNext ""; pure (some s) else pure none
    | none => pure none
  let o ← rmNext "env-name-missing"
  if o.cat != .GroupBegin then throw "env-name-not-a-group"
  let nt ← rmNext "env-name-missing"
  let c ← rmNext "env-name-missing"
  if c.cat != .GroupEnd then throw "env-name-several-tokens"
  pure ⟨sp, o, nt, c⟩

/-- split the argument groups (in order) into the four runs -/
def splitRuns (as : List (GKind × Arg)) : Option (List Arg × List Arg × List Arg × List Arg) :=
  let isK (k : GKind) (x : GKind × Arg) : Bool := x.1 == k
  let a1 := as.takeWhile (isK .bracket); let r1 := as.dropWhile (isK .bracket)
  let a2 := r1.takeWhile (isK .brace); let r2 := r1.dropWhile (isK .brace)
  let a3 := r2.takeWhile (isK .bracket); let r3 := r2.dropWhile (isK .bracket)
  let a4 := r3.takeWhile (isK .brace); let r4 := r3.dropWhile (isK .brace)
  if r4.isEmpty then some (a1.map (·.2), a2.map (·.2), a3.map (·.2), a4.map (·.2)) else none

mutual
partial def recE (sk : List Str) : Expr → RM Elem
  | .text s p => do
      let t ← rmNext "tokens-exhausted"
      if t.text == s && (t.pos : Int) == p then pure (.leaf t) else throw "leaf-is-not-the-next-token"
  | .group .brace body p => do
      let o ← rmNext "tokens-exhausted"
      if o.cat != .GroupBegin || (o.pos : Int) != p then throw "group-opener-mismatch"
      let b ← recL [] body
      let c ← rmNext "group-unclosed"
      if c.cat != .GroupEnd then throw "group-unclosed"
      pure (.group o b c)
  | .group .bracket _ _ => throw "bracket-group-as-element"
  | .math k body p => do
      let o ← rmNext "tokens-exhausted"
      if mkindOfBegin o.cat != some k || (o.pos : Int) != p then throw "math-opener-mismatch"
      let b ← recL [] body
      let c ← rmNext "math-unclosed"
      if c.cat != k.tokEnd then throw "math-unclosed"
      pure (.math k o b c)
  | .cmd name args body p => do
      let e ← rmNext "tokens-exhausted"
      if e.cat != .Escape || (e.pos : Int) != p then throw "command-backslash-mismatch"
      let n ← rmNext "command-name-missing"
      if strip n.text != name then throw "command-name-mismatch"
      let as ← recArgs args
      match splitRuns as with
      | none => throw "argument-run-has-more-than-four-phases"
      | some (a1, a2, a3, a4) =>
        if n.text == sItem then
          let b ← recL [] body
          pure (.item e n a1 a2 a3 a4 b)
        else if !body.isEmpty then throw "command-with-contents"
        else pure (.cmd e n a1 a2 a3 a4)
  | .nenv name args body p => do
      let e ← rmNext "tokens-exhausted"
      if e.cat != .Escape || (e.pos : Int) != p then throw "environment-backslash-mismatch"
      let bg ← rmNext "begin-missing"
      if bg.text != sBegin then throw "begin-missing"
      let nm ← rmName
      if strip nm.nt.text != name then throw "env-name-mismatch"
      let as ← recArgs args
      match splitRuns as with
      | none => throw "argument-run-has-more-than-four-phases"
      | some (a1, a2, a3, a4) =>
        -- after the name group: braces, then tight brackets, then tight braces
        let (a2, a3, a4) ← if a1.isEmpty then pure (a2, a3, a4)
          else if a2.isEmpty && a3.isEmpty && a4.isEmpty then pure ([], a1, [])
          else if a3.isEmpty && a4.isEmpty then pure ([], a1, a2)
          else throw "environment-arguments-shape"
        if memStr name sk then
          match body with
          | [.text raw _] =>
            let vb ← rmTakeRaw raw
            let e5 ← rmTake5
            pure (.venv e bg nm a2 a3 a4 vb e5)
          | _ => throw "verbatim-body-shape"
        else
          let b ← recL sk body
          let e2 ← rmNext "environment-unclosed"
          if e2.cat != .Escape then throw "environment-unclosed"
          let en ← rmNext "environment-unclosed"
          if en.text != sEnd then throw "environment-unclosed"
          let nm2 ← rmName
          pure (.env e bg nm a2 a3 a4 b e2 en nm2)
partial def recL (sk : List Str) : List Expr → RM (List Elem)
  | [] => pure []
  | x :: xs => do
      let e ← recE sk x
      let es ← recL sk xs
      pure (e :: es)
/-- argument groups: a spacer token directly in front of the opener belongs to the argument -/
partial def recArgs : List Expr → RM (List (GKind × Arg))
  | [] => pure []
  | .group k body p :: xs => do
      if p < 0 then throw "made-up-argument"
      let (t0, t1) ← rmPeek2
      let sp ← match t0, t1 with
        | some s, some o =>
          if s.cat == .MergedSpacer && o.cat == k.tokBegin && (o.pos : Int) == p then do
            let s ← rmNext ""; pure (some s)
          else pure none
        | _, _ => pure none
      let o ← rmNext "argument-opener-missing"
      if o.cat != k.tokBegin || (o.pos : Int) != p then throw "argument-opener-mismatch"
      let b ← recL [] body
      let c ← rmNext "argument-unclosed"
      if c.cat != k.tokEnd then throw "argument-unclosed"
      let r ← recArgs xs
      pure ((k, .mk sp o b c) :: r)
  | _ :: _ => throw "bare-command-as-argument"
end

/-- The candidate document, or the reason why the search gave up. -/
def recognizeE (skip : List Str) (ts : List Tok) (es : List Expr) : Except String Doc :=
  match (recL skip es).run ts with
  | .error why => .error why
  | .ok (d, []) => .ok d
  | .ok (_, _ :: _) => .error "tokens-left-over"

def recognize (skip : List Str) (ts : List Tok) (es : List Expr) : Option Doc :=
  match recognizeE skip ts es with
  | .ok d => some d
  | .error _ => none

/-! ### Boolean forms of hypotheses (evaluated on the certificate) -/

mutual
/-- no spacer is written in front of an argument group or name group (`squeezeD d = d`) -/
def adjacent : Elem → Bool
  | .leaf _ => true
  | .group _ b _ => adjacentS b
  | .math _ _ b _ => adjacentS b
  | .cmd _ _ a1 a2 a3 a4 => adjacentA a1 && adjacentA a2 && adjacentA a3 && adjacentA a4
  | .item _ _ a1 a2 a3 a4 b => adjacentA a1 && adjacentA a2 && adjacentA a3 && adjacentA a4 && adjacentS b
  | .env _ _ nm a2 a3 a4 b _ _ nm2 =>
      nm.sp.isNone && adjacentA a2 && adjacentA a3 && adjacentA a4 && adjacentS b && nm2.sp.isNone
  | .venv _ _ nm a2 a3 a4 _ _ => nm.sp.isNone && adjacentA a2 && adjacentA a3 && adjacentA a4
def adjacentS : List Elem → Bool
  | [] => true
  | e :: es => adjacent e && adjacentS es
def adjacentArg : Arg → Bool
  | .mk sp _ b _ => sp.isNone && adjacentS b
def adjacentA : List Arg → Bool
  | [] => true
  | a :: as => adjacentArg a && adjacentA as
end

/-- the positions are the running offsets (`Positioned p ts`) -/
def positionedB : Nat → List Tok → Bool
  | _, [] => true
  | p, t :: r => t.pos == p && positionedB (p + t.text.length) r

/-- texts and categories -/
def tokKeys (ts : List Tok) : List (Str × TC) := ts.map fun t => (t.text, t.cat)

/-- the token list is what the tokenizer makes of its own text, up to positions
(`Separated none ts`, by `tokenize_inverse` and its converse) -/
def separatedB (ts : List Tok) : Bool :=
  match tokenize (flat ts) with
  | some ts' => tokKeys ts' == tokKeys ts
  | none => false

end TexSoup.Gram
