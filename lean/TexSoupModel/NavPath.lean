import TexSoupModel.Path
/-!
# Path-annotated navigation views (`TexNode.parent`)

Every `TexNode` that a view of a node `n` produces has `.parent = n`. The model expresses
this by giving every element of a view the structural `Step` that leads to it from `n`
(`TexSoupModel/Path.lean`): a descendant is listed together with its full `Path` from the
node the search started at, and its *parent* is the node at `path.dropLast`.

Arguments are addressed through their `_contents` (`Step.arg i j`), exactly as the Python
side locates a node inside `parent.expr.args[i]._contents`. This agrees with `arg.contents`
(the source of `expr.all`) whenever arguments have no arguments of their own, which is the
case for everything `TexArgs` holds (groups, and bare `TexCmd(name)` arguments); see
`Expr.flatArgs`.
-/
namespace TexSoup

/-- The elements of a content list with the step that addresses each (`mk j` for index `j`,
counting from `j0`). -/
def idxP (mk : Nat → Step) : Nat → List Expr → List (Step × Expr)
  | _, [] => []
  | j, x :: xs => (mk j, x) :: idxP mk (j + 1) xs

/-- `_contents` of every argument, addressed as `arg i j` (arguments counted from `i0`). -/
def allArgsP : Nat → List Expr → List (Step × Expr)
  | _, [] => []
  | i, a :: as => idxP (Step.arg i) 0 a.body ++ allArgsP (i + 1) as

/-- Everything one step below `e`: argument contents, then the node's own `_contents`
(`expr.all` before any whitespace filtering, with addresses). -/
def allP (e : Expr) : List (Step × Expr) := allArgsP 0 e.args ++ idxP Step.body 0 e.body

/-- `node.contents` with the step from `node` to each element. -/
def contentsP (e : Expr) : List (Step × Expr) := (allP e).filter (fun sx => !sx.2.isBlankText)

/-- `node.children` with the step from `node` to each element. -/
def childrenP (e : Expr) : List (Step × Expr) := (contentsP e).filter (fun sx => !sx.2.isText)

/-- Extend the path `pre` by the step of every element. -/
def tagP (pre : Path) (l : List (Step × Expr)) : List (Path × Expr) :=
  l.map (fun sx => (pre ++ [sx.1], sx.2))

mutual
/-- `node.descendants` where `node` sits at path `pre`: every descendant with its full path,
in the order of `descOf`. -/
def descP (pre : Path) : Expr → List (Path × Expr)
  | .text _ _ => []
  | .cmd n a b p => tagP pre (contentsP (.cmd n a b p)) ++ (descArgsP pre 0 a ++ descListP pre Step.body 0 b)
  | .nenv n a b p => tagP pre (contentsP (.nenv n a b p)) ++ (descArgsP pre 0 a ++ descListP pre Step.body 0 b)
  | .math k b p => tagP pre (contentsP (.math k b p)) ++ descListP pre Step.body 0 b
  | .group k b p => tagP pre (contentsP (.group k b p)) ++ descListP pre Step.body 0 b
/-- descendants of the elements of a content list whose `j`-th element sits at `pre ++ [mk j]` -/
def descListP (pre : Path) (mk : Nat → Step) : Nat → List Expr → List (Path × Expr)
  | _, [] => []
  | j, e :: es => descP (pre ++ [mk j]) e ++ descListP pre mk (j + 1) es
/-- descendants of the children found in the contents of each argument -/
def descArgsP (pre : Path) : Nat → List Expr → List (Path × Expr)
  | _, [] => []
  | i, a :: as => descInnerP pre i a ++ descArgsP pre (i + 1) as
/-- descendants of the children among the `_contents` of the `i`-th argument -/
def descInnerP (pre : Path) (i : Nat) : Expr → List (Path × Expr)
  | .text _ _ => []
  | .cmd _ _ b _ => descListP pre (Step.arg i) 0 b
  | .nenv _ _ b _ => descListP pre (Step.arg i) 0 b
  | .math _ b _ => descListP pre (Step.arg i) 0 b
  | .group _ b _ => descListP pre (Step.arg i) 0 b
end

/-- descendants of the root with their paths (`rootWrap`: paths start with `body j`) -/
def descRootP (es : List Expr) : List (Path × Expr) := descP [] (rootWrap es)

/-- `node.parent` of the node at path `p`, as a path. -/
def parentPath (p : Path) : Path := p.dropLast

mutual
/-- No argument anywhere in the tree has arguments of its own (true of every tree the
parser or `TexArgs` builds: arguments are groups or bare `TexCmd(name)`). Under this
condition `arg.contents` is the filtered `arg._contents`, so `Step.arg` addresses all of it. -/
def Expr.flatArgs : Expr → Bool
  | .text _ _ => true
  | .cmd _ a b _ => flatArgsA a && flatArgsL b
  | .nenv _ a b _ => flatArgsA a && flatArgsL b
  | .math _ b _ => flatArgsL b
  | .group _ b _ => flatArgsL b
def flatArgsL : List Expr → Bool
  | [] => true
  | e :: es => e.flatArgs && flatArgsL es
def flatArgsA : List Expr → Bool
  | [] => true
  | a :: as => (a.args.isEmpty && a.flatArgs) && flatArgsA as
end

end TexSoup
