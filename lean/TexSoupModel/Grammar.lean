import TexSoupModel.Read
/-!
# A grammar of documented constructs, at token level

`Elem` is the syntax tree of a document as it is *written*: every constructor lists the
tokens it is spelled with. `toks` renders an element to its tokens, `tree` gives the
expression the parser is expected to build, and `WF` collects the frame conditions under
which the token list means what the syntax tree says (what may follow a command, what an
element may not start with inside a group, ...). Each condition is read off the reader; the
completeness theorem (`TexSoupProofs/Complete`, `Properties/C02`) shows that they suffice.

Restriction: an environment name is ONE token between the braces of `\begin{..}` / `\end{..}`
(`NameArg`; the reader accepts any brace group there and compares `strip` of its serialised
contents). Argument runs are described completely, for open and for fixed signatures (including
the continuation `\section{a}[b]`, `runOK`).

Everything here is computable (it is also executed against the implementation).
-/
namespace TexSoup.Gram
open TexSoup

/-- `{name}` with an optional `MergedSpacer` token in front: the way an environment name is
written after `\begin` / `\end`. -/
structure NameArg where
  sp : Option Tok
  o  : Tok
  nt : Tok
  c  : Tok
  deriving Repr, Inhabited

mutual
/-- One construct of the document. -/
inductive Elem where
  /-- a token that is kept as a text leaf: text, spacer, comment, escaped symbol, line
  break, `[`, `]`, `&`, a stray closer ... -/
  | leaf (t : Tok)
  /-- a free brace group `{ body }` -/
  | group (o : Tok) (body : List Elem) (c : Tok)
  /-- `$..$`, `$$..$$`, `\(..\)`, `\[..\]` -/
  | math (k : MKind) (o : Tok) (body : List Elem) (c : Tok)
  /-- `\name` followed by an argument run `a1 a2 a3 a4`: bracket groups, brace groups, then
  (starting tight) bracket groups, then (starting tight) brace groups. Covers commands with
  an open signature, the fixed signatures of the table (zero-argument operators included)
  and the special commands (`\newcommand` ...): the signature and the argument mode are
  functions of the name. -/
  | cmd (esc name : Tok) (a1 a2 a3 a4 : List Arg)
  /-- `\item`, its arguments, and the contents it owns. -/
  | item (esc name : Tok) (a1 a2 a3 a4 : List Arg) (body : List Elem)
  /-- `\begin{name} args body \end{name}` -/
  | env (esc bgn : Tok) (nm : NameArg) (a2 a3 a4 : List Arg) (body : List Elem)
      (esc2 en : Tok) (nm2 : NameArg)
  /-- `\begin{name} args` raw tokens `\end{name}` for a name in the skip list: the body is
  not interpreted; `e5` are the five tokens spelling `\end{name}`. -/
  | venv (esc bgn : Tok) (nm : NameArg) (a2 a3 a4 : List Arg) (body : List Tok) (e5 : List Tok)
/-- One argument group with the optional spacer in front of it (the reader drops the
spacer). Whether it is a bracket or a brace group is given by its place in the run. -/
inductive Arg where
  | mk (sp : Option Tok) (o : Tok) (body : List Elem) (c : Tok)
end

instance : Inhabited Elem := ⟨.leaf default⟩
instance : Inhabited Arg := ⟨.mk none default [] default⟩

def Arg.body : Arg → List Elem
  | .mk _ _ b _ => b

def NameArg.toks (n : NameArg) : List Tok := n.sp.toList ++ [n.o, n.nt, n.c]
def NameArg.toArg (n : NameArg) : Arg := .mk n.sp n.o [.leaf n.nt] n.c
def NameArg.tree (n : NameArg) : Expr := .group .brace [.text n.nt.text n.nt.pos] n.o.pos

/-! ### rendering -/

mutual
/-- The tokens an element is written with. -/
def toks : Elem → List Tok
  | .leaf t => [t]
  | .group o b c => o :: (toksS b ++ [c])
  | .math _ o b c => o :: (toksS b ++ [c])
  | .cmd esc name a1 a2 a3 a4 => esc :: name :: (toksA a1 ++ (toksA a2 ++ (toksA a3 ++ toksA a4)))
  | .item esc name a1 a2 a3 a4 b =>
      esc :: name :: (toksA a1 ++ (toksA a2 ++ (toksA a3 ++ (toksA a4 ++ toksS b))))
  | .env esc bgn nm a2 a3 a4 b esc2 en nm2 =>
      esc :: bgn :: (nm.toks ++ (toksA a2 ++ (toksA a3 ++ (toksA a4 ++
        (toksS b ++ (esc2 :: en :: nm2.toks))))))
  | .venv esc bgn nm a2 a3 a4 vb e5 =>
      esc :: bgn :: (nm.toks ++ (toksA a2 ++ (toksA a3 ++ (toksA a4 ++ (vb ++ e5)))))
def toksS : List Elem → List Tok
  | [] => []
  | e :: es => toks e ++ toksS es
def toksArg : Arg → List Tok
  | .mk sp o b c => sp.toList ++ o :: (toksS b ++ [c])
def toksA : List Arg → List Tok
  | [] => []
  | a :: as => toksArg a ++ toksA as
end

/-- Position of the first token of the raw body of a verbatim-like environment (the
terminator is never empty). -/
def headPos : List Tok → Int
  | t :: _ => t.pos
  | [] => -1

mutual
/-- The expression the parser is expected to build. -/
def tree : Elem → Expr
  | .leaf t => .text t.text t.pos
  | .group o b _ => .group .brace (trees b) o.pos
  | .math k o b _ => .math k (trees b) o.pos
  | .cmd esc name a1 a2 a3 a4 =>
      .cmd (strip name.text)
        (treesA .bracket a1 ++ (treesA .brace a2 ++ (treesA .bracket a3 ++ treesA .brace a4))) [] esc.pos
  | .item esc name a1 a2 a3 a4 b =>
      .cmd (strip name.text)
        (treesA .bracket a1 ++ (treesA .brace a2 ++ (treesA .bracket a3 ++ treesA .brace a4)))
        (trees b) esc.pos
  | .env esc _ nm a2 a3 a4 b _ _ _ =>
      .nenv (strip nm.nt.text) (treesA .brace a2 ++ (treesA .bracket a3 ++ treesA .brace a4))
        (trees b) esc.pos
  | .venv esc _ nm a2 a3 a4 vb e5 =>
      .nenv (strip nm.nt.text) (treesA .brace a2 ++ (treesA .bracket a3 ++ treesA .brace a4))
        [.text (flat vb) (headPos (vb ++ e5))] esc.pos
def trees : List Elem → List Expr
  | [] => []
  | e :: es => tree e :: trees es
def treeArg (k : GKind) : Arg → Expr
  | .mk _ o b _ => .group k (trees b) o.pos
def treesA (k : GKind) : List Arg → List Expr
  | [] => []
  | a :: as => treeArg k a :: treesA k as
end

/-! ### what follows: the look-ahead window -/

def hdCat : List Tok → Option TC
  | [] => none
  | t :: _ => some t.cat

/-- The tokens after one optional spacer (`read_spacer`). -/
def afterSp (ts : List Tok) : List Tok := (readSpacer ts).2

/-- The part of the following tokens the reader can look at before deciding where a construct
ends: the next token, and the one after it if the next one is a spacer or a backslash. -/
def win : List Tok → List Tok
  | [] => []
  | t :: r => if t.cat == .MergedSpacer || t.cat == .Escape then t :: r.take 1 else [t]

/-- What ends the contents of an `\item`: end of input, a closing brace, `\item`, `\end`. -/
def itemStop : List Tok → Bool
  | [] => true
  | t :: r => t.cat == .GroupEnd ||
      (t.cat == .Escape && match r with
        | n :: _ => n.text == sEnd || n.text == sItem
        | [] => false)

/-- The first group of a continuation run must follow immediately (no spacer). -/
def tight : List Arg → Bool
  | [] => true
  | .mk sp _ _ _ :: _ => sp.isNone

/-- Shape of an argument run for the signature `sg = (required, optional)` of the command and
the condition on the following tokens `nx` under which the reader takes exactly this run.

Open signature (both negative; every command outside the table):
`a1` brackets, `a2` braces (each after an optional spacer), then – only directly after a
brace group – `a3` more brackets starting tight, then `a4` more braces starting tight.
 * no brace group: the next token after an optional spacer is neither `[` nor `{`;
 * ends with `a2`: the next token is not `[`, and not `{` after an optional spacer;
 * ends with `a3`: not `[` after an optional spacer, and the next token is not `{`;
 * ends with `a4`: not `{` after an optional spacer (a `[` is *not* absorbed any more).
Fixed signature (both non-negative): `a1` brackets, exactly `required` brace groups `a2`, and –
only directly after a brace group – `a3` more brackets starting tight (the continuation of
`read_args`: `\section{a}[b]`), at most `optional` brackets in all; no `a4` (no required argument
is left for the fourth phase). If optional arguments were left out, the next token must not be
`[`: after `a3` after an optional spacer; without `a3` directly, and after an optional spacer if
there is no required argument either. -/
def runOK (sg : Int × Int) (a1 a2 a3 a4 : List Arg) (nx : List Tok) : Bool :=
  if sg.1 < 0 && sg.2 < 0 then
    tight a3 && tight a4 &&
    (match a2, a3, a4 with
     | [], [], [] =>
        hdCat (afterSp nx) != some .BracketBegin && hdCat (afterSp nx) != some .GroupBegin
     | _ :: _, [], [] => hdCat nx != some .BracketBegin && hdCat (afterSp nx) != some .GroupBegin
     | _ :: _, _ :: _, [] => hdCat (afterSp nx) != some .BracketBegin && hdCat nx != some .GroupBegin
     | _ :: _, _ :: _, _ :: _ => hdCat (afterSp nx) != some .GroupBegin
     | _, _, _ => false)
  else if 0 ≤ sg.1 && 0 ≤ sg.2 then
    a4.isEmpty && tight a3 && (a3.isEmpty || !a2.isEmpty)
    && decide ((a1.length : Int) + a3.length ≤ sg.2) && decide ((a2.length : Int) = sg.1) &&
    (decide ((a1.length : Int) + a3.length = sg.2) ||
      (if a3.isEmpty then
        hdCat nx != some .BracketBegin && (!a2.isEmpty || hdCat (afterSp nx) != some .BracketBegin)
       else hdCat (afterSp nx) != some .BracketBegin))
  else false

/-! ### well-formedness -/

/-- A token `read_expr` keeps as a text leaf. -/
def leafTok (c : Tok) : Bool :=
  (mkindOfBegin c.cat).isNone && c.cat != .Escape && c.cat != .GroupBegin

def spOK : Option Tok → Bool
  | none => true
  | some s => s.cat == .MergedSpacer

/-- `{name}`: the name is one leaf token that does not close the group. -/
def NameArg.ok (n : NameArg) : Bool :=
  spOK n.sp && n.o.cat == .GroupBegin && n.c.cat == .GroupEnd && leafTok n.nt && n.nt.cat != .GroupEnd

def firstTok : Elem → Tok
  | .leaf t => t
  | .group o _ _ => o
  | .math _ o _ _ => o
  | .cmd esc _ _ _ _ _ => esc
  | .item esc _ _ _ _ _ _ => esc
  | .env esc _ _ _ _ _ _ _ _ _ => esc
  | .venv esc _ _ _ _ _ _ _ => esc

/-- The text of the token after the backslash, for constructs that start with one. -/
def nameText : Elem → Option Str
  | .cmd _ n _ _ _ _ => some n.text
  | .item _ n _ _ _ _ _ => some n.text
  | .env _ n _ _ _ _ _ _ _ _ => some n.text
  | .venv _ n _ _ _ _ _ _ => some n.text
  | _ => none

/-- Where a sequence of elements is read: by `read_tex`, inside a group or argument, inside a
math region, as the body of an environment, as the contents of an `\item`. -/
inductive Ctx where
  | top | grp (k : GKind) | mth (k : MKind) | env | item
  deriving DecidableEq, Repr

/-- What an element may not start with, depending on the loop that reads it:
 * in a group or argument of kind `k`, and in a math region of kind `k`: not with the closer –
   `read_arg` / `read_math_env` stop there (inside `$..$` this rules out a nested `$..$`);
 * in an environment body: not a command named `end` – the look-ahead ends the body there;
 * in the contents of an `\item`: not `}` and not a command named `end` or `item`.
Nothing is excluded at top level: a stray `}`, `]`, `\end{x}` is a text leaf / plain command. -/
def startOK (ctx : Ctx) (e : Elem) : Bool :=
  match ctx with
  | .top => true
  | .grp k => (firstTok e).cat != k.tokEnd
  | .mth k => (firstTok e).cat != k.tokEnd
  | .env => nameText e != some sEnd
  | .item => (firstTok e).cat != .GroupEnd && nameText e != some sEnd && nameText e != some sItem

/-- Mode of the body of an environment. -/
def envMode (name : Str) (m : Mode) : Mode :=
  if memStr name Tables.mathEnvNames then .math else m

/-- No token boundary inside the raw body at which the end marker already starts. -/
def noEarly (marker : Str) (e5 : List Tok) : List Tok → Bool
  | [] => true
  | t :: r => !bufStartsWith marker (t :: r ++ e5) && noEarly marker e5 r

mutual
/-- `WF skip m nx e`: element `e`, read in mode `m` with skip list `skip` in force and followed
by tokens whose look-ahead window is `nx`, means what `tree e` says. -/
def WF (skip : List Str) (m : Mode) (nx : List Tok) : Elem → Bool
  | .leaf t => leafTok t
  | .group o b c =>
      -- the contents of a free group are always read in non-math mode
      o.cat == .GroupBegin && c.cat == .GroupEnd && WFs [] .nonMath (.grp .brace) [c] b
  | .math k o b c =>
      mkindOfBegin o.cat == some k && c.cat == k.tokEnd && WFs [] .math (.mth k) [c] b
  | .cmd esc name a1 a2 a3 a4 =>
      esc.cat == .Escape && name.text != sItem
      -- `\begin` is an ordinary command only in the arguments of a special command
      && (name.text != sBegin || m == .special)
      && WFa (cmdMode name.text m) .bracket a1 && WFa (cmdMode name.text m) .brace a2
      && WFa (cmdMode name.text m) .bracket a3 && WFa (cmdMode name.text m) .brace a4
      && runOK (cmdSig (-1) (-1) name.text) a1 a2 a3 a4 nx
  | .item esc name a1 a2 a3 a4 b =>
      esc.cat == .Escape && name.text == sItem
      && m != .math                       -- `\item` in math mode is an assertion error
      && WFa (cmdMode name.text m) .bracket a1 && WFa (cmdMode name.text m) .brace a2
      && WFa (cmdMode name.text m) .bracket a3 && WFa (cmdMode name.text m) .brace a4
      && runOK (cmdSig (-1) (-1) name.text) a1 a2 a3 a4 (win (toksS b ++ nx))
      -- contents: strict, non-math, no skip list; they end where `itemStop` says
      && WFs [] .nonMath .item nx b
      && itemStop nx
  | .env esc bgn nm a2 a3 a4 b esc2 en nm2 =>
      esc.cat == .Escape && bgn.text == sBegin && m != .special
      && nm.ok && WFa (cmdMode bgn.text m) .brace a2
      && WFa (cmdMode bgn.text m) .bracket a3 && WFa (cmdMode bgn.text m) .brace a4
      && runOK (cmdSig (-1) (-1) bgn.text) [] (nm.toArg :: a2) a3 a4 (win (toksS b ++ [esc2, en]))
      && !memStr (strip nm.nt.text) skip
      && WFs skip (envMode (strip nm.nt.text) m) .env [esc2, en] b
      && esc2.cat == .Escape && en.text == sEnd && nm2.ok
      -- `\end{x}` closes `\begin{y}` iff `x = strip y`
      && nm2.nt.text == strip nm.nt.text
  | .venv esc bgn nm a2 a3 a4 vb e5 =>
      esc.cat == .Escape && bgn.text == sBegin && m != .special
      && nm.ok && WFa (cmdMode bgn.text m) .brace a2
      && WFa (cmdMode bgn.text m) .bracket a3 && WFa (cmdMode bgn.text m) .brace a4
      -- the raw body must not start with something the argument reader would take
      && runOK (cmdSig (-1) (-1) bgn.text) [] (nm.toArg :: a2) a3 a4 (win (vb ++ e5))
      -- only where a skip list is in force (top level, environment bodies)
      && memStr (strip nm.nt.text) skip
      && e5.length == 5 && flat e5 == endMarker (strip nm.nt.text)
      && noEarly (endMarker (strip nm.nt.text)) e5 vb
/-- A sequence read by the loop `ctx`, followed by tokens with window `nx`.

The last conjunct is forced by the look-ahead of `read_env`: in an environment body every
command is first *peeked* with the signature `(1, 0)` of `\end`. For a command written without
arguments the peek looks at what follows it; if that is a free brace group (after an optional
spacer) the peek reads it as an argument – in the argument mode of the command inside the mode
of the environment, not in the non-math mode in which the group is read afterwards. So the
group must be well-formed in that mode, too (it differs only in a math environment: no
`\item` there). -/
def WFs (skip : List Str) (m : Mode) (ctx : Ctx) (nx : List Tok) : List Elem → Bool
  | [] => true
  | e :: es =>
      WF skip m (win (toksS es ++ nx)) e && startOK ctx e
      && WFs skip m ctx nx es
      && (match ctx, e, es with
          | .env, .cmd _ name [] [] _ _, .group _ b c :: _ =>
              WFs [] (cmdMode name.text m) (.grp .brace) [c] b
          | .env, .cmd _ name [] [] _ _, .leaf s :: .group _ b c :: _ =>
              s.cat != .MergedSpacer || WFs [] (cmdMode name.text m) (.grp .brace) [c] b
          | _, _, _ => true)
def WFarg (m : Mode) (k : GKind) : Arg → Bool
  | .mk sp o b c =>
      spOK sp && o.cat == k.tokBegin && c.cat == k.tokEnd && WFs [] m (.grp k) [c] b
def WFa (m : Mode) (k : GKind) : List Arg → Bool
  | [] => true
  | a :: as => WFarg m k a && WFa m k as
end

/-! ### whole documents -/

abbrev Doc := List Elem
def toksD (d : Doc) : List Tok := toksS d
def treeD (d : Doc) : List Expr := trees d
/-- A document read by `read_tex` with the skip list `skip`. -/
def WFD (skip : List Str) (d : Doc) : Bool := WFs skip .nonMath .top [] d

end TexSoup.Gram
