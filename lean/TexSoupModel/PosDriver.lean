import TexSoupModel.Pos
/-!
# Line-protocol front end for the `CharToLineOffset` model

Request (the words after `lines`): `<encoded string> <offset>`; answer `<line> <col>`.
With a leading word `legacy` the pre-repair code (`bisect.bisect`) answers instead.
Strings are decimal code points joined by `.` (`-` is the empty string), as in `Driver.lean`.
-/
namespace TexSoup
namespace PosDrv

def decStr (w : String) : Option Str :=
  if w == "-" then some []
  else (w.splitOn ".").mapM (fun x => x.toNat?)

def showRes (r : Nat × Int) : String := s!"{r.1} {r.2}"

end PosDrv

def linesHandle (words : List String) : String :=
  match words with
  | [w, p] =>
    match PosDrv.decStr w, p.toNat? with
    | some s, some p => PosDrv.showRes (charPosToLine s p)
    | _, _ => "bad-arg"
  | ["legacy", w, p] =>
    match PosDrv.decStr w, p.toNat? with
    | some s, some p => PosDrv.showRes (Legacy.charPosToLine s p)
    | _, _ => "bad-arg"
  | _ => "bad-op"

end TexSoup
