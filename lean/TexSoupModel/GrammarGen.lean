import TexSoupModel.Grammar
/-!
# Random documents of the proved grammar (driver side only; no theorem depends on this file)

`gramDocs seed n depth` draws `n` random `Gram.Doc`s, renumbers token positions as running offsets and keeps
those that are well-formed (`WFD`) and tokenize back to themselves (`tokenize (flat (toksD d)) = toksD d`,
i.e. `Separated` and `Positioned` by `tokenize_iff`): exactly the hypotheses of `C02.document_parses`.
-/
open TexSoup TexSoup.Gram
namespace TexSoup.GramGen

def S (s : String) : Str := s.toList.map Char.toNat
def tk (s : String) (c : TC) : Tok := ⟨S s, 0, c⟩

abbrev G := StateM Nat
def rnd (n : Nat) : G Nat := do
  let s ← get
  let s' := (s * 6364136223846793005 + 1442695040888963407) % (2^64)
  set s'
  pure ((s' >>> 33) % n)
def pick {α} [Inhabited α] (l : List α) : G α := do let i ← rnd l.length; pure (l[i]!)

def leafToks : List Tok := [tk "a" .Text, tk " " .MergedSpacer, tk "[" .BracketBegin, tk "]" .BracketEnd,
  tk "%c" .Comment, tk "%{$" .Comment, tk " a " .Text, tk "&" .Text, tk "\\%" .EscapedComment, tk "\\$" .EscapedComment, tk "\\\\" .EscapedComment, tk "}" .GroupEnd, tk "\\]" .DisplayMathGroupEnd, tk "b" .Text, tk "\n" .MergedSpacer, tk "\n\n" .Text, tk "1, 2." .Text, tk "(x)" .Text]
def cmdNames : List String := ["foo", "foo", "bar", "x", "emph*", "textbf", "in", "cup", "section", "newcommand", "renewcommand", "end", "begin", "label", "def", "noindent"]
def envNames : List String := ["a", "equation", "itemize", "align*", "center", "my env"]
def vNames : List String := ["verbatim", "lstlisting", "Verbatim"]
def esc : Tok := tk "\\" .Escape
def optSp : G (Option Tok) := do if (← rnd 4) == 0 then pure (some (tk " " .MergedSpacer)) else pure none

mutual
partial def genElem (d : Nat) : G Elem := do
  let c ← rnd (if d == 0 then 2 else 13)
  match c with
  | 0 | 1 | 2 => pure (.leaf (← pick leafToks))
  | 3 => pure (.group (tk "{" .GroupBegin) (← genSeq (d-1)) (tk "}" .GroupEnd))
  | 4 =>
    let k ← pick [MKind.dollar, .ddollar, .math, .displaymath]
    let (o, cl) := match k with
      | .dollar => (tk "$" .MathSwitch, tk "$" .MathSwitch)
      | .ddollar => (tk "$$" .DisplayMathSwitch, tk "$$" .DisplayMathSwitch)
      | .math => (tk "\\(" .MathGroupBegin, tk "\\)" .MathGroupEnd)
      | .displaymath => (tk "\\[" .DisplayMathGroupBegin, tk "\\]" .DisplayMathGroupEnd)
    pure (.math k o (← genSeq (d-1)) cl)
  | 5 | 6 | 7 =>
    let n ← pick cmdNames
    pure (.cmd esc (tk n .CommandName) (← genArgs (d-1) .bracket 2) (← genArgs (d-1) .brace 3) (← genArgs (d-1) .bracket 1) (← genArgs (d-1) .brace 1))
  | 8 =>
    pure (.item esc (tk "item" .CommandName) (← genArgs (d-1) .bracket 2) (← genArgs (d-1) .brace 1) [] [] (← genSeq (d-1)))
  | 12 =>
    -- a long argument run (more than nine groups)
    let n ← pick ["foo", "bar", "x"]
    pure (.cmd esc (tk n .CommandName) (← genArgsN 0 .bracket (← rnd 5)) (← genArgsN 0 .brace (7 + (← rnd 6))) [] [])
  | 9 | 10 =>
    let n ← pick envNames
    let n2 ← if (← rnd 5) == 0 then pick envNames else pure (n.replace " " "")
    pure (.env esc (tk "begin" .CommandName) ⟨← optSp, tk "{" .GroupBegin, tk n .Text, tk "}" .GroupEnd⟩
      (← genArgs (d-1) .brace 1) (← genArgs (d-1) .bracket 1) (← genArgs (d-1) .brace 1) (← genSeq (d-1))
      esc (tk "end" .CommandName) ⟨← optSp, tk "{" .GroupBegin, tk n2 .Text, tk "}" .GroupEnd⟩)
  | _ =>
    let n ← pick vNames
    let body ← (List.range (← rnd 4)).mapM fun _ => pick (leafToks ++ [esc, tk "end" .CommandName, tk "{" .GroupBegin, tk "$" .MathSwitch])
    pure (.venv esc (tk "begin" .CommandName) ⟨← optSp, tk "{" .GroupBegin, tk n .Text, tk "}" .GroupEnd⟩
      [] [] [] body [esc, tk "end" .CommandName, tk "{" .GroupBegin, tk n .Text, tk "}" .GroupEnd])
partial def genSeq (d : Nat) : G (List Elem) := do
  let n ← rnd 4
  (List.range n).mapM fun _ => genElem d
partial def genArgsN (d : Nat) (k : GKind) (n : Nat) : G (List Arg) := do
  (List.range n).mapM fun _ => do
    let (o, c) := match k with
      | .bracket => (tk "[" .BracketBegin, tk "]" .BracketEnd)
      | .brace => (tk "{" .GroupBegin, tk "}" .GroupEnd)
    pure (Arg.mk (← optSp) o (← genSeq d) c)
partial def genArgs (d : Nat) (k : GKind) (mx : Nat) : G (List Arg) := do
  let n ← rnd (mx + 1)
  let n := if (← rnd 2) == 0 then 0 else n
  (List.range n).mapM fun _ => do
    let (o, c) := match k with
      | .bracket => (tk "[" .BracketBegin, tk "]" .BracketEnd)
      | .brace => (tk "{" .GroupBegin, tk "}" .GroupEnd)
    pure (Arg.mk (← optSp) o (← genSeq d) c)
end

abbrev R := StateM Nat
def rl (t : Tok) : R Tok := do
  let p ← get
  set (p + t.text.length)
  pure {t with pos := p}
def rlO : Option Tok → R (Option Tok)
  | none => pure none
  | some t => do pure (some (← rl t))
def rlN (n : NameArg) : R NameArg := do
  let sp ← rlO n.sp; let o ← rl n.o; let nt ← rl n.nt; let c ← rl n.c
  pure ⟨sp, o, nt, c⟩
mutual
partial def rlE : Elem → R Elem
  | .leaf t => do pure (.leaf (← rl t))
  | .group o b c => do let o ← rl o; let b ← rlS b; let c ← rl c; pure (.group o b c)
  | .math k o b c => do let o ← rl o; let b ← rlS b; let c ← rl c; pure (.math k o b c)
  | .cmd e n a1 a2 a3 a4 => do
      let e ← rl e; let n ← rl n; let a1 ← rlA a1; let a2 ← rlA a2; let a3 ← rlA a3; let a4 ← rlA a4
      pure (.cmd e n a1 a2 a3 a4)
  | .item e n a1 a2 a3 a4 b => do
      let e ← rl e; let n ← rl n; let a1 ← rlA a1; let a2 ← rlA a2; let a3 ← rlA a3; let a4 ← rlA a4
      let b ← rlS b
      pure (.item e n a1 a2 a3 a4 b)
  | .env e n nm a2 a3 a4 b e2 n2 nm2 => do
      let e ← rl e; let n ← rl n; let nm ← rlN nm; let a2 ← rlA a2; let a3 ← rlA a3; let a4 ← rlA a4
      let b ← rlS b; let e2 ← rl e2; let n2 ← rl n2; let nm2 ← rlN nm2
      pure (.env e n nm a2 a3 a4 b e2 n2 nm2)
  | .venv e n nm a2 a3 a4 vb e5 => do
      let e ← rl e; let n ← rl n; let nm ← rlN nm; let a2 ← rlA a2; let a3 ← rlA a3; let a4 ← rlA a4
      let vb ← vb.mapM rl; let e5 ← e5.mapM rl
      pure (.venv e n nm a2 a3 a4 vb e5)
partial def rlS : List Elem → R (List Elem)
  | [] => pure []
  | e :: es => do let e ← rlE e; let es ← rlS es; pure (e :: es)
partial def rlA : List Arg → R (List Arg)
  | [] => pure []
  | .mk sp o b c :: as => do
      let sp ← rlO sp; let o ← rl o; let b ← rlS b; let c ← rl c; let as ← rlA as
      pure (.mk sp o b c :: as)
end


/-- `n` attempts from `seed`; returns the accepted documents as (source, expected trees) -/
def gramDocs (seed n depth : Nat) : List (Str × List Expr) := Id.run do
  let skip := Tables.skipEnvNames
  let mut sd := seed
  let mut out : List (Str × List Expr) := []
  for _ in [0:n] do
    let (d0, s') := (genSeq depth).run sd
    sd := s'
    let (d, _) := (rlS d0).run 0
    if d.length > 0 && WFD skip d then
      let src := flat (toksD d)
      match tokenize src with
      | some ts => if ts == toksD d then out := (src, treeD d) :: out
      | none => pure ()
  return out.reverse

end TexSoup.GramGen
