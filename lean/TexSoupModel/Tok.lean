import TexSoupModel.Basic
/-!
# Model of `TexSoup/tokens.py` (after the repairs listed in known_findings.txt)

Every tokenizer looks at the character before the cursor (`peek(-1)`), the category of the
previous *token* (only `comment` does), and the remaining characters, and answers with the
number of characters it consumed and, if it produced a token, the token's category.
`pass` is one run of the `for name, f in tokenizers` loop of `next_token`, in the
registration order taken from the generated tables; `tokLoop` is `tokenize`.
-/
namespace TexSoup

/-- What one tokenizer call did: produced a token of `n` characters, or returned `None`
after advancing the cursor by `n` characters (only `ignore` advances). -/
inductive TkOut where
  | tok  (n : Nat) (c : TC)
  | skip (n : Nat)
  deriving Repr, DecidableEq

def hd? : Str → Option Ch
  | [] => none
  | c :: _ => some c

/-- Categories after an escape that make an escaped symbol (literal tuple in
`tokenize_escaped_symbols`). -/
def isEscapable : CC → Bool
  | .Escape | .GroupBegin | .GroupEnd | .MathSwitch | .Alignment | .EndOfLine | .Macro
  | .Superscript | .Subscript | .Spacer | .Active | .Comment | .Other => true
  | _ => false

/-- Categories at which `tokenize_string` stops. -/
def isStringStop : CC → Bool
  | .Escape | .GroupBegin | .GroupEnd | .MathSwitch | .BracketBegin | .BracketEnd
  | .Comment => true
  | _ => false

def isIgnored : CC → Bool
  | .Ignored | .Invalid => true
  | _ => false

/-- `mapping` of `tokenize_math_asym_switch`, keyed by the second character's category
(the first must be `Escape`). -/
def asymSwitch : CC → Option TC
  | .BracketBegin => some .DisplayMathGroupBegin
  | .BracketEnd   => some .DisplayMathGroupEnd
  | .ParenBegin   => some .MathGroupBegin
  | .ParenEnd     => some .MathGroupEnd
  | _ => none

/-- `mapping` of `tokenize_symbols`. -/
def symbolOf : CC → Option TC
  | .Escape       => some .Escape
  | .GroupBegin   => some .GroupBegin
  | .GroupEnd     => some .GroupEnd
  | .BracketBegin => some .BracketBegin
  | .BracketEnd   => some .BracketEnd
  | _ => none

/-- First entry of the sizing-command table that the remaining text starts with. -/
def firstMatch : List Str → Str → Option Str
  | [], _ => none
  | p :: ps, rest => if isPrefix p rest then some p else firstMatch ps rest

def isSpacerCh (c : Ch) : Bool := catOf c == .Spacer
def isLetterCh (c : Ch) : Bool := catOf c == .Letter

/-- Number of characters `tokenize_spacers` walks over: blanks, at most one end-of-line,
blanks. -/
def spacerRun (rest : Str) : Nat :=
  let n1 := countWhile isSpacerCh rest
  let r1 := rest.drop n1
  let n2 := match r1 with
    | c :: _ => if catOf c == .EndOfLine then 1 else 0
    | [] => 0
  let r2 := r1.drop n2
  n1 + n2 + countWhile isSpacerCh r2

/-- One tokenizer, `prevTok` = category of the previous token, `prev` = character before
the cursor, `rest` = remaining characters (non-empty when called by `pass`). -/
def runTk (k : TkName) (prevTok : Option TC) (prev : Option Ch) (rest : Str) : TkOut :=
  match k with
  | .escapedSymbols =>
    match rest with
    | c0 :: c1 :: _ =>
      if catOf c0 == .Escape && isEscapable (catOf c1) then .tok 2 .EscapedComment else .skip 0
    | _ => .skip 0
  | .comment =>
    match rest with
    | c0 :: r =>
      -- `prev is None or prev.category != CC.Comment` compares a TokenCode with a CategoryCode
      let prevOk := match prevTok with
        | none => true
        | some t => Tables.tcValue t != Tables.ccValue .Comment
      if catOf c0 == .Comment && prevOk then
        .tok (1 + countWhile (fun c => catOf c != .EndOfLine) r) .Comment
      else .skip 0
    | [] => .skip 0
  | .mathSymSwitch =>
    match rest with
    | c0 :: r =>
      if catOf c0 == .MathSwitch then
        match r with
        | c1 :: _ => if catOf c1 == .MathSwitch then .tok 2 .DisplayMathSwitch else .tok 1 .MathSwitch
        | [] => .tok 1 .MathSwitch
      else .skip 0
    | [] => .skip 0
  | .mathAsymSwitch =>
    match rest with
    | c0 :: c1 :: _ =>
      if catOf c0 == .Escape then
        match asymSwitch (catOf c1) with
        | some t => .tok 2 t
        | none => .skip 0
      else .skip 0
    | _ => .skip 0
  | .lineBreak =>
    match rest with
    | c0 :: c1 :: _ =>
      if catOf c0 == .Escape && catOf c1 == .Escape then .tok 2 .LineBreak else .skip 0
    | _ => .skip 0
  | .ignore => .skip (countWhile (fun c => isIgnored (catOf c)) rest)
  | .spacers =>
    let n := spacerRun rest
    match rest.drop n with
    | c :: _ =>
      if catOf c == .Letter || catOf c == .Other then .skip 0
      else if n == 0 then .skip 0 else .tok n .MergedSpacer
    | [] => if n == 0 then .skip 0 else .tok n .MergedSpacer
  | .symbols =>
    match rest with
    | c0 :: _ =>
      match symbolOf (catOf c0) with
      | some t => .tok 1 t
      | none => .skip 0
    | [] => .skip 0
  | .punctuationCommandName =>
    match prev with
    | some p =>
      if catOf p == .Escape then
        match firstMatch Tables.punctuationCommands rest with
        | some point => .tok point.length .PunctuationCommandName
        | none => .skip 0
      else .skip 0
    | none => .skip 0
  | .commandName =>
    match prev, rest with
    | some p, c0 :: r =>
      if catOf p == .Escape && catOf c0 == .Letter then
        .tok (1 + countWhile (fun c => isLetterCh c || c == 42) r) .CommandName
      else .skip 0
    | _, _ => .skip 0
  | .string =>
    let n := countWhile (fun c => !isStringStop (catOf c)) rest
    if n == 0 then .skip 0 else .tok n .Text

/-- Tokenizer state: character before the cursor, offset, remaining characters. -/
structure TSt where
  prev : Option Ch
  pos  : Nat
  rest : Str
  deriving Repr, DecidableEq

def lastD : Str → Option Ch → Option Ch
  | [], d => d
  | c :: r, _ => lastD r (some c)

/-- Advance the cursor over `n` characters. -/
def TSt.adv (st : TSt) (n : Nat) : TSt :=
  let t := st.rest.take n
  { prev := lastD t st.prev, pos := st.pos + t.length, rest := st.rest.drop n }

/-- Result of one pass over the tokenizer list. -/
inductive PassOut where
  | tok  (t : Tok) (st : TSt)
  | none (st : TSt)
  deriving Repr

/-- One run of `for name, f in tokenizers` inside `next_token`. -/
def pass : List TkName → Option TC → TSt → PassOut
  | [], _, st => .none st
  | k :: ks, pt, st =>
    match runTk k pt st.prev st.rest with
    | .tok n c => .tok ⟨st.rest.take n, st.pos, c⟩ (st.adv n)
    | .skip n =>
      let st' := st.adv n
      if st'.rest.isEmpty then .none st' else pass ks pt st'

/-- `tokenize`: repeat `next_token` until the input is exhausted. `none` = the loop made
no progress within the fuel (the Python code would spin forever). -/
def tokLoop : Nat → Option TC → TSt → Option (List Tok)
  | 0, _, _ => none
  | f + 1, pt, st =>
    if st.rest.isEmpty then some []
    else match pass Tables.tokenizerOrder pt st with
      | .tok t st' => (tokLoop f (some t.cat) st').map (t :: ·)
      | .none st' => tokLoop f pt st'

/-- Fuel that always suffices (theorem `tokenize_total`). -/
def tokFuel (s : Str) : Nat := s.length + 1

def tokenize (s : Str) : Option (List Tok) := tokLoop (tokFuel s) none ⟨none, 0, s⟩

end TexSoup
