import TexSoupModel.Nav
/-!
# Structural addressing of nodes

Python edits act on object identity; the model addresses the same place by a path of
structural steps from the root. `arg i j` is the `j`-th element of the `_contents` of the
`i`-th argument of a node, `body j` the `j`-th element of the node's own `_contents`.
The parent of the node at `p ++ [st]` (in the sense of `TexNode.parent`) is the node at `p`.
-/
namespace TexSoup

inductive Step where
  | arg (i j : Nat)
  | body (j : Nat)
  deriving DecidableEq, Repr, Inhabited

abbrev Path := List Step

def stepGet (e : Expr) : Step → Option Expr
  | .arg i j => match e.args[i]? with
    | some a => a.body[j]?
    | none => none
  | .body j => e.body[j]?

def getAt : Expr → Path → Option Expr
  | e, [] => some e
  | e, st :: p => match stepGet e st with
    | some x => getAt x p
    | none => none

/-- The root `[tex]` environment as an expression (only its body matters; never serialised
through `ser`). -/
def rootWrap (es : List Expr) : Expr := .nenv [] [] es (-1)

def getAtRoot (es : List Expr) (p : Path) : Option Expr := getAt (rootWrap es) p

def Expr.setBody : Expr → List Expr → Expr
  | .text s p, _ => .text s p
  | .cmd n a _ p, b => .cmd n a b p
  | .nenv n a _ p, b => .nenv n a b p
  | .math k _ p, b => .math k b p
  | .group k _ p, b => .group k b p

def Expr.setArgs : Expr → List Expr → Expr
  | .cmd n _ b p, a => .cmd n a b p
  | .nenv n _ b p, a => .nenv n a b p
  | e, _ => e

/-- Apply `f` to the node at path `p` (`none` if the path does not exist or `f` fails). -/
def updAt : Expr → Path → (Expr → Option Expr) → Option Expr
  | e, [], f => f e
  | e, .body j :: p, f =>
    match e.body[j]? with
    | none => none
    | some x => match updAt x p f with
      | none => none
      | some x' => some (e.setBody (e.body.set j x'))
  | e, .arg i j :: p, f =>
    match e.args[i]? with
    | none => none
    | some a => match a.body[j]? with
      | none => none
      | some x => match updAt x p f with
        | none => none
        | some x' => some (e.setArgs (e.args.set i (a.setBody (a.body.set j x'))))

/-- Edit the list that holds the element addressed by `st` (the *holder* of the repaired
`TexNode.delete/replace/remove`): `g j l` receives the index and the holder's contents. -/
def editHolder (e : Expr) (st : Step) (g : Nat → List Expr → Option (List Expr)) : Option Expr :=
  match st with
  | .body j => match g j e.body with
    | some b => some (e.setBody b)
    | none => none
  | .arg i j => match e.args[i]? with
    | none => none
    | some a => match g j a.body with
      | some b => some (e.setArgs (e.args.set i (a.setBody b)))
      | none => none

end TexSoup
