import TexSoupModel.Basic
/-!
# Model of `utils.CharToLineOffset`

```python
class CharToLineOffset(object):
    def __init__(self, src):
        self.line_break_positions = [i for i, c in enumerate(src) if c == '\n']
        self.src_len = len(src)

    def __call__(self, char_pos):
        line_no = bisect.bisect_left(self.line_break_positions, char_pos)
        if line_no == 0:
            char_no = char_pos
        elif line_no == len(self.line_break_positions):
            line_start = self.line_break_positions[-1]
            char_no = min(char_pos - line_start - 1, self.src_len - line_start)
        else:
            char_no = char_pos - self.line_break_positions[line_no - 1] - 1
        return line_no, char_no
```

`bisectLeft`/`bisectRight` are the binary searches of the standard library module `bisect`
(`lo = 0, hi = len(a)`, `mid = (lo + hi) // 2`), run with fuel `len(a) + 1`, which is more
than the at most `⌈log₂ len⌉ + 1` rounds they need. Columns are Python integers, which
may become negative (they do in the legacy code), hence `Int`.
-/
namespace TexSoup

/-- `[i for i, c in enumerate(src, start) if c == '\n']`. -/
def lineBreaksFrom : Nat → Str → List Nat
  | _, [] => []
  | i, c :: r => if c = 10 then i :: lineBreaksFrom (i + 1) r else lineBreaksFrom (i + 1) r

/-- `self.line_break_positions`. -/
def lineBreaks (s : Str) : List Nat := lineBreaksFrom 0 s

/-- Loop of `bisect.bisect_left(a, x)`:
`while lo < hi: mid = (lo + hi) // 2; if a[mid] < x: lo = mid + 1 else: hi = mid`. -/
def bisectLeftGo (a : List Nat) (x : Nat) : Nat → Nat → Nat → Nat
  | 0, lo, _ => lo
  | fuel + 1, lo, hi =>
    if lo < hi then
      let mid := (lo + hi) / 2
      if a.getD mid 0 < x then bisectLeftGo a x fuel (mid + 1) hi
      else bisectLeftGo a x fuel lo mid
    else lo

/-- `bisect.bisect_left(a, x)`. -/
def bisectLeft (a : List Nat) (x : Nat) : Nat := bisectLeftGo a x (a.length + 1) 0 a.length

/-- Loop of `bisect.bisect_right(a, x)` (alias `bisect.bisect`):
`while lo < hi: mid = (lo + hi) // 2; if x < a[mid]: hi = mid else: lo = mid + 1`. -/
def bisectRightGo (a : List Nat) (x : Nat) : Nat → Nat → Nat → Nat
  | 0, lo, _ => lo
  | fuel + 1, lo, hi =>
    if lo < hi then
      let mid := (lo + hi) / 2
      if x < a.getD mid 0 then bisectRightGo a x fuel lo mid
      else bisectRightGo a x fuel (mid + 1) hi
    else lo

/-- `bisect.bisect(a, x)` = `bisect.bisect_right(a, x)`. -/
def bisectRight (a : List Nat) (x : Nat) : Nat := bisectRightGo a x (a.length + 1) 0 a.length

/-- Body of `CharToLineOffset.__call__` after the bisection (`lbs` = the break positions,
`len` = `src_len`, `n` = `line_no`). `lbs[-1]` and `lbs[n - 1]` are in range in the
branches that read them (`n ≥ 1` there and, in the third branch, `n ≤ len(lbs)`); the
default `0` of `getD` is never used. -/
def lineColOf (lbs : List Nat) (len : Nat) (p : Nat) (n : Nat) : Nat × Int :=
  if n = 0 then (n, (p : Int))
  else if n = lbs.length then
    let lineStart : Int := (lbs.getD (lbs.length - 1) 0 : Nat)
    (n, min ((p : Int) - lineStart - 1) ((len : Int) - lineStart))
  else (n, (p : Int) - (lbs.getD (n - 1) 0 : Nat) - 1)

/-- `CharToLineOffset(s)(p)`. -/
def charPosToLine (s : Str) (p : Nat) : Nat × Int :=
  let lbs := lineBreaks s
  lineColOf lbs s.length p (bisectLeft lbs p)

namespace Legacy
/-- The code before the repair of F6: `line_no = bisect.bisect(self.line_break_positions,
char_pos)`, everything else identical. -/
def charPosToLine (s : Str) (p : Nat) : Nat × Int :=
  let lbs := lineBreaks s
  lineColOf lbs s.length p (bisectRight lbs p)
end Legacy

end TexSoup
