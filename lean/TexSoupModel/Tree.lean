import TexSoupModel.Basic
/-!
# Model of the expression tree of `TexSoup/data.py` and of its serialisation (`__str__`)
-/
namespace TexSoup

/-- `BracketGroup` / `BraceGroup` (in the order of `arg_type`). -/
inductive GKind where
  | bracket | brace
  deriving DecidableEq, Repr, Inhabited

/-- The four unnamed math environments, in the order of `MATH_SIMPLE_ENVS`. -/
inductive MKind where
  | ddollar      -- TexDisplayMathModeEnv  $$..$$
  | dollar       -- TexMathModeEnv         $..$
  | displaymath  -- TexDisplayMathEnv      \[..\]
  | math         -- TexMathEnv             \(..\)
  deriving DecidableEq, Repr, Inhabited

/-- `TexExpr` family. `text` stands for a `TexText` (or bare `Token`/`str`) leaf; its
position is `-1` for strings that did not come from the source. `cmd` has a body only for
`\item`. The root environment `[tex]` is a bare `List Expr`. -/
inductive Expr where
  | text  (s : Str) (pos : Int)
  | cmd   (name : Str) (args : List Expr) (body : List Expr) (pos : Int)
  | nenv  (name : Str) (args : List Expr) (body : List Expr) (pos : Int)
  | math  (k : MKind) (body : List Expr) (pos : Int)
  | group (k : GKind) (body : List Expr) (pos : Int)
  deriving Repr, Inhabited

def GKind.tokBegin : GKind → TC
  | .bracket => .BracketBegin
  | .brace => .GroupBegin
def GKind.tokEnd : GKind → TC
  | .bracket => .BracketEnd
  | .brace => .GroupEnd
def GKind.open : GKind → Str
  | .bracket => [91]
  | .brace => [123]
def GKind.close : GKind → Str
  | .bracket => [93]
  | .brace => [125]
def GKind.name : GKind → Str
  | .bracket => [66, 114, 97, 99, 107, 101, 116, 71, 114, 111, 117, 112]
  | .brace => [66, 114, 97, 99, 101, 71, 114, 111, 117, 112]

def MKind.tokBegin : MKind → TC
  | .ddollar => .DisplayMathSwitch
  | .dollar => .MathSwitch
  | .displaymath => .DisplayMathGroupBegin
  | .math => .MathGroupBegin
def MKind.tokEnd : MKind → TC
  | .ddollar => .DisplayMathSwitch
  | .dollar => .MathSwitch
  | .displaymath => .DisplayMathGroupEnd
  | .math => .MathGroupEnd
def MKind.open : MKind → Str
  | .ddollar => [36, 36]
  | .dollar => [36]
  | .displaymath => [92, 91]
  | .math => [92, 40]
def MKind.close : MKind → Str
  | .ddollar => [36, 36]
  | .dollar => [36]
  | .displaymath => [92, 93]
  | .math => [92, 41]
def MKind.name : MKind → Str
  | .ddollar => [36, 36]
  | .dollar => [36]
  | .displaymath => [100, 105, 115, 112, 108, 97, 121, 109, 97, 116, 104]
  | .math => [109, 97, 116, 104]

def allMKinds : List MKind := [.ddollar, .dollar, .displaymath, .math]
def allGKinds : List GKind := [.bracket, .brace]

/-- `MATH_TOKEN_TO_ENV` lookup. -/
def mkindOfBegin : TC → Option MKind
  | .DisplayMathSwitch => some .ddollar
  | .MathSwitch => some .dollar
  | .DisplayMathGroupBegin => some .displaymath
  | .MathGroupBegin => some .math
  | _ => none

/-- `ARG_BEGIN_TO_ENV` lookup. -/
def gkindOfBegin : TC → Option GKind
  | .BracketBegin => some .bracket
  | .GroupBegin => some .brace
  | _ => none

def strBegin : Str := [92, 98, 101, 103, 105, 110, 123]   -- \begin{
def strEnd   : Str := [92, 101, 110, 100, 123]            -- \end{

mutual
/-- `str(expr)`. -/
def ser : Expr → Str
  | .text s _ => s
  | .cmd name args body _ => 92 :: (name ++ (serL args ++ serL body))
  | .nenv name args body _ =>
      strBegin ++ (name ++ (125 :: (serL args ++ (serL body ++ (strEnd ++ (name ++ [125]))))))
  | .math k body _ => k.open ++ (serL body ++ k.close)
  | .group k body _ => k.open ++ (serL body ++ k.close)
/-- `''.join(map(str, exprs))`. -/
def serL : List Expr → Str
  | [] => []
  | e :: es => ser e ++ serL es
end

/-- `expr.position`. -/
def Expr.pos : Expr → Int
  | .text _ p | .cmd _ _ _ p | .nenv _ _ _ p | .math _ _ p | .group _ _ p => p

/-- `expr.name`. -/
def Expr.name : Expr → Str
  | .text _ _ => [116, 101, 120, 116]
  | .cmd n _ _ _ | .nenv n _ _ _ => n
  | .math k _ _ => k.name
  | .group k _ _ => k.name

/-- `expr.args` (empty for kinds that never carry arguments). -/
def Expr.args : Expr → List Expr
  | .cmd _ a _ _ | .nenv _ a _ _ => a
  | _ => []

/-- `expr._contents` (for a text leaf: nothing; its own text is not a child). -/
def Expr.body : Expr → List Expr
  | .text _ _ => []
  | .cmd _ _ b _ | .nenv _ _ b _ | .math _ b _ | .group _ b _ => b

/-- `expr.string` of a group: its contents stringified. -/
def Expr.string (e : Expr) : Str := serL e.body

end TexSoup
