import TexSoupModel.Buf
/-!
# Line protocol for the `Buffer` model

Request (the words after `buf`):  `<flavour> <src> | <op>;<op>;...`

* Strings travel as decimal code points joined by `.`; `-` is the empty string.
* `<flavour>` = `s`: string-backed, `<src>` is one encoded string, the elements are its
  characters (`Buffer('abc')`).
  `<flavour>` = `t`: token-backed, `<src>` is a comma-separated list of encoded strings (one
  per token text, `Buffer(iter([Token(text, offset), ...]))`), `_` for the empty list.
* Operations (no spaces; `<int>` is a decimal with optional `-`; `<onat>` is a natural or `_`
  for an absent bound; `<set>` is a comma-separated list of encoded strings, `_` = empty set):

  | op               | Python                                  |
  |------------------|-----------------------------------------|
  | `n`              | `next(b)`                               |
  | `f:<int>`        | `b.forward(j)`                          |
  | `b:<int>`        | `b.backward(j)`                         |
  | `p:<int>`        | `b.peek(j)`                             |
  | `r:<int>:<int>`  | `b.peek((a, b))`                        |
  | `g:<nat>`        | `b[k]`                                  |
  | `l:<onat>:<onat>`| `b[a:b]`                                |
  | `h:<int>`        | `b.hasNext(n)`                          |
  | `s:<str>`        | `b.startswith(x)`                       |
  | `e:<str>`        | `b.endswith(x)`                         |
  | `u:<set>`        | `b.forward_until(lambda x: x in set)`   |
  | `c:<set>`        | `b.num_forward_until(lambda x: x in set)` |
  | `pos`            | `b.position`                            |

  An empty op list is the empty word or `_`.
* Answer: for each op `<out>@<cursor after the op>`, joined by `;`.  `<out>` is an encoded
  string (token results), `None`, `True`/`False`, `#<nat>`, or an exception name
  (`StopIteration`, `AssertionError`, `IndexError`; `Fuel` if a model loop ran dry).
  Malformed requests answer `bad-arg`.
-/
namespace TexSoup.BufDriver
open TexSoup

def encStr (s : Str) : String :=
  if s.isEmpty then "-" else ".".intercalate (s.map toString)

def decStr (w : String) : Option Str :=
  if w == "-" then some []
  else (w.splitOn ".").mapM (fun x => x.toNat?)

def decList (w : String) : Option (List Str) :=
  if w == "_" then some [] else (w.splitOn ",").mapM decStr

def decONat (w : String) : Option (Option Nat) :=
  if w == "_" then some none else w.toNat?.map some

def decOp (w : String) : Option BufOp :=
  match w.splitOn ":" with
  | ["n"] => some .next
  | ["pos"] => some .position
  | ["f", j] => j.toInt?.map .forward
  | ["b", j] => j.toInt?.map .backward
  | ["p", j] => j.toInt?.map .peek
  | ["r", a, b] => do some (.peekRange (← a.toInt?) (← b.toInt?))
  | ["g", k] => k.toNat?.map .getItem
  | ["l", a, b] => do some (.slice (← decONat a) (← decONat b))
  | ["h", n] => n.toInt?.map .hasNext
  | ["s", x] => (decStr x).map .startswith
  | ["e", x] => (decStr x).map .endswith
  | ["u", c] => (decList c).map .forwardUntil
  | ["c", c] => (decList c).map .numForwardUntil
  | _ => none

def decOps (w : String) : Option (List BufOp) :=
  if w == "" || w == "_" then some [] else (w.splitOn ";").mapM decOp

def showOut : BufOut → String
  | .joined s => encStr s
  | .elem s => encStr s
  | .none => "None"
  | .bool true => "True"
  | .bool false => "False"
  | .nat n => s!"#{n}"
  | .stopIteration => "StopIteration"
  | .assertionError => "AssertionError"
  | .indexError => "IndexError"
  | .fuel => "Fuel"

def decSrc (flavour src : String) : Option BufState :=
  if flavour == "s" then (decStr src).map Buf.ofString
  else if flavour == "t" then (decList src).map Buf.init
  else none

def answer (s : BufState) (ops : List BufOp) : String :=
  ";".intercalate ((Buf.trace s ops).map fun (o, i) => s!"{showOut o}@{i}")

end TexSoup.BufDriver

open TexSoup TexSoup.BufDriver in
/-- Handle the words after `buf`. -/
def bufHandle (args : List String) : String :=
  let go (flavour src ops : String) : String :=
    match decSrc flavour src, decOps ops with
    | some s, some os => answer s os
    | _, _ => "bad-arg"
  match args with
  | [flavour, src, "|", ops] => go flavour src ops
  | [flavour, src, "|"] => go flavour src ""
  | _ => "bad-arg"
