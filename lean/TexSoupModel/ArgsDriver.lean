import TexSoupModel.Args
import TexSoupModel.Read
/-!
# Line-protocol front end for the `TexArgs` model

Request (the words after `args`): one word `<op>;<op>;...` (no word at all = no
operation). The history starts from `TexArgs()`.

Strings are decimal code points joined by `.` (`-` is the empty string), as in `Driver.lean`.

```
item ::= <str>        unparsed Python str, e.g. 123.120.125 for '{x}', 32 for ' '
       | g:<str>      the group object TexGroup.parse(<str>)   (bad-arg if that raises)
       | g@<int>:<str>  the same object with `.position = <int>` (to tell textual twins apart)
       | c:<str>      the object TexCmd(<str>)
       | n:<str>      the object TexNamedEnv(<str>)
       | x:<str>      the object TexText(<str>)
       | h<k>         the SAME object at every occurrence in the history:
                      h2 = one BracketGroup('b'), every other h<k> = one BraceGroup('a')
       | P<k> | Q<k>  the k-th argument object of the command \\o (P) / \\q (Q) of the PARSED probe
                      document (one parse per history; the same object at every occurrence):
                      \\o{A \\textbf{b} c}[$x$]{{k}}{\\begin{e}z\\end{e}}{plain} \\q{A \\textbf{b} c}{plain}[$x$]
op   ::= a:<item>             append(item)
       | e:<item>,<item>,..   extend([..])         (`e:` alone: extend([]))
       | i:<int>:<item>       insert(int, item)
       | r:<item>             remove(item)
       | p:<int> | p          pop(int) | pop()
       | v                    reverse()
       | c                    clear()
       | g:<int>              args[int]
       | s:<lo>:<hi>          args[lo:hi], a bound is an int or `_` (left out)
       | t                    str(args)
       | I                    (first operation only) target and other are not empty lists but the
                              `.args` of \\o and \\q of the parsed probe document
       | x:<lo>:<hi>          args.extend(args[lo:hi])   (extend by a TexArgs object: own slice)
       | X                    args.extend(args)          (extend by the list itself)
       | y                    target.extend(other)       (`other`: the args of a second command)
       | o:<op>               the operation <op> with the roles of target and other swapped
                              (`o:a:..` appends to other, `o:y` is other.extend(target))
```

Answer: for every operation `<out> @ <state>`, joined by `;`; if the history uses `other`
(any `y` or `o:` operation) `<state>` is followed by ` & <state of other>`; where

```
out   ::= none | item <sexpr> | slice <state> | string <str> | TypeError | ValueError | IndexError
state ::= lst=<str>,<str>,..|all=<str>,<str>,..      (`str()` of every entry)
```

Identity: every occurrence of a `g:`/`g@`/`c:`/`n:`/`x:` item is a fresh object (identity
`Oid.ext (2 * (4096 * opIndex + itemIndex) + 1)`), `h<k>` is the object `Oid.ext (2 * k)`.
Identities do not show in the answers, only in what the class does with `.all`.

`<sexpr>` is the tree notation of `Driver.lean` (`showExpr`), `(t -1 <str>)` for a bare
string.
-/
namespace TexSoup
namespace ArgsDrv

def encStr (s : Str) : String :=
  if s.isEmpty then "-" else ".".intercalate (s.map toString)

def decStr (w : String) : Option Str :=
  if w == "-" then some []
  else (w.splitOn ".").mapM (fun x => x.toNat?)

def gk : GKind → String
  | .bracket => "bracket"
  | .brace => "brace"
def mk : MKind → String
  | .ddollar => "ddollar"
  | .dollar => "dollar"
  | .displaymath => "displaymath"
  | .math => "math"

mutual
partial def showExpr : Expr → String
  | .text s p => s!"(t {p} {encStr s})"
  | .cmd n a b p => s!"(c {encStr n} {p} [{showExprs a}] [{showExprs b}])"
  | .nenv n a b p => s!"(e {encStr n} {p} [{showExprs a}] [{showExprs b}])"
  | .math k b p => s!"(m {mk k} {p} [{showExprs b}])"
  | .group k b p => s!"(g {gk k} {p} [{showExprs b}])"
partial def showExprs (es : List Expr) : String := " ".intercalate (es.map showExpr)
end

def showItem : ArgItem → String
  | .grp o => showExpr o.e
  | .ws s => s!"(t -1 {encStr s})"

def showState (st : ArgsSt) : String :=
  "lst=" ++ ",".intercalate (st.lst.map fun o => encStr (ser o.e)) ++
  "|all=" ++ ",".intercalate (st.all.map fun it => encStr it.txt)

def showOut : ArgsOut → String
  | .none => "none"
  | .item it => "item " ++ showItem it
  | .sliceResult st => "slice " ++ showState st
  | .string s => "string " ++ encStr s
  | .typeError => "TypeError"
  | .valueError => "ValueError"
  | .indexError => "IndexError"

/-- The probe document (see the header), parsed by the model's own parser. -/
def probeDoc : Str := [92, 111, 123, 65, 32, 92, 116, 101, 120, 116, 98, 102, 123, 98, 125, 32, 99, 125, 91, 36, 120, 36, 93, 123, 123, 107, 125, 125, 123, 92, 98, 101, 103, 105, 110, 123, 101, 125, 122, 92, 101, 110, 100, 123, 101, 125, 125, 123, 112, 108, 97, 105, 110, 125, 32, 92, 113, 123, 65, 32, 92, 116, 101, 120, 116, 98, 102, 123, 98, 125, 32, 99, 125, 123, 112, 108, 97, 105, 110, 125, 91, 36, 120, 36, 93]

def probeArgsOf (name : Str) : List Expr → List Expr
  | [] => []
  | .cmd n a _ _ :: r => if n = name then a else probeArgsOf name r
  | _ :: r => probeArgsOf name r

/-- Argument objects of `\\o` (`q = false`) or `\\q` of the parsed probe, with their identities. -/
def mkProbeObjs (q : Bool) : List Obj :=
  match parse false [] probeDoc with
  | .ok es =>
    ((probeArgsOf (if q then [113] else [111]) es).zipIdx).map fun (ek : Expr × Nat) =>
      ⟨.ext (2 * ((if q then 200000 else 100000) + ek.2)), ek.1⟩
  | .error _ => []

/-- Closed terms: evaluated once per driver process. -/
def probeObjsO : List Obj := mkProbeObjs false
def probeObjsQ : List Obj := mkProbeObjs true
def probeObjs (q : Bool) : List Obj := if q then probeObjsQ else probeObjsO

/-- `TexArgs(args)` as `TexExpr.__init__` builds the argument list of a parsed command. -/
def probeState (q : Bool) : ArgsSt := (Args.construct ((probeObjs q).map .grp) 0).1

/-- An item from its `:`-separated pieces; `occ` numbers the occurrence (fresh identity). -/
def decItem (occ : Nat) (ws : List String) : Option ArgIn :=
  let fresh (e : Expr) : ArgIn := .grp ⟨.ext (2 * occ + 1), e⟩
  match ws with
  | [w] =>
    if w.startsWith "P" || w.startsWith "Q" then do
      let k ← (w.drop 1).toString.toNat?
      let o ← (probeObjs (w.startsWith "Q"))[k]?
      pure (.grp o)
    else if w.startsWith "h" then do
      let k ← (w.drop 1).toString.toNat?
      let e : Expr := if k == 2 then .group .bracket [.text [98] (-1)] (-1)
                      else .group .brace [.text [97] (-1)] (-1)
      pure (.grp ⟨.ext (2 * k), e⟩)
    else (decStr w).map .str
  | ["g", w] => (decStr w).bind fun s => (parseGroup s).map fresh
  | ["c", w] => (decStr w).map fun s => fresh (.cmd s [] [] (-1))
  | ["n", w] => (decStr w).map fun s => fresh (.nenv s [] [] (-1))
  | ["x", w] => (decStr w).map fun s => fresh (.text s (-1))
  | [tag, w] =>
    if tag.startsWith "g@" then do
      let p ← (tag.drop 2).toString.toInt?
      let s ← decStr w
      match parseGroup s with
      | some (.group k b _) => pure (fresh (.group k b p))
      | _ => none
    else none
  | _ => none

def decBound (w : String) : Option (Option Int) :=
  if w == "_" then some none else w.toInt?.map some

/-- Operation number `n` of the history. -/
def decOp (n : Nat) (w : String) : Option ArgsOp :=
  let occ (j : Nat) : Nat := 4096 * n + j
  match w.splitOn ":" with
  | "a" :: it => (decItem (occ 0) it).map .append
  | ["e", ""] => some (.extend [])
  | "e" :: rest =>
    ((((":".intercalate rest).splitOn ",").zipIdx).mapM fun (xj : String × Nat) =>
      decItem (occ xj.2) (xj.1.splitOn ":")).map .extend
  | "i" :: i :: it => do
    let i ← i.toInt?
    let it ← decItem (occ 0) it
    pure (.insert i it)
  | "r" :: it => (decItem (occ 0) it).map .remove
  | ["p"] => some (.pop (-1))
  | ["p", i] => i.toInt?.map .pop
  | ["v"] => some .reverse
  | ["c"] => some .clear
  | ["g", i] => i.toInt?.map .getItem
  | ["s", lo, hi] => do
    let lo ← decBound lo
    let hi ← decBound hi
    pure (.slice lo hi)
  | ["t"] => some .str
  | ["X"] => some .extendSelf
  | ["x", lo, hi] => do
    let lo ← decBound lo
    let hi ← decBound hi
    pure (.extendSlice lo hi)
  | _ => none

def decPairOp (n : Nat) (w : String) : Option Args.PairOp :=
  if w == "y" then some (.extendBy false)
  else if w == "o:y" then some (.extendBy true)
  else if w.startsWith "o:" then (decOp n (w.drop 2).toString).map (.on true)
  else (decOp n w).map (.on false)

def usesOther (w : String) : Bool := w == "y" || w.startsWith "o:"

def runShow (two : Bool) (s : Args.PairSt) : List Args.PairOp → List String
  | [] => []
  | op :: ops =>
    let r := Args.stepPair s op
    (showOut r.2 ++ " @ " ++ showState r.1.tgt ++
      (if two then " & " ++ showState r.1.oth else "")) :: runShow two r.1 ops

end ArgsDrv

def argsHandle (words : List String) : String :=
  match words with
  | [] => ""
  | [w] =>
    let ws := w.splitOn ";"
    let two := ws.any ArgsDrv.usesOther
    let (start, first, rest) : Args.PairSt × List String × List String :=
      match ws with
      | "I" :: r =>
        let s : Args.PairSt := ⟨ArgsDrv.probeState false, ArgsDrv.probeState true⟩
        (s, ["none @ " ++ ArgsDrv.showState s.tgt ++
              (if two then " & " ++ ArgsDrv.showState s.oth else "")], r)
      | _ => (⟨.empty 0, .empty 0⟩, [], ws)
    if rest.isEmpty then ";".intercalate first
    else
      match (rest.zipIdx).mapM (fun (xn : String × Nat) => ArgsDrv.decPairOp (xn.2 + 1) xn.1) with
      | some ops => ";".intercalate (first ++ ArgsDrv.runShow two start ops)
      | none => "bad-arg"
  | _ => "bad-op"

end TexSoup
