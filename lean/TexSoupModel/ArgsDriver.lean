import TexSoupModel.Args
/-!
# Line-protocol front end for the `TexArgs` model

Request (the words after `args`): one word `<op>;<op>;...` (no word at all = no
operation). The history starts from `TexArgs()`.

Strings are decimal code points joined by `.` (`-` is the empty string), as in `Driver.lean`.

```
item ::= <str>        unparsed Python str, e.g. 123.120.125 for '{x}', 32 for ' '
       | g:<str>      the group object TexGroup.parse(<str>)   (bad-arg if that raises)
       | g@<int>:<str>  the same object with `.position = <int>` (to tell textual twins apart)
       | c:<str>      the object TexCmd(<str>)
       | n:<str>      the object TexNamedEnv(<str>)
       | x:<str>      the object TexText(<str>)
op   ::= a:<item>             append(item)
       | e:<item>,<item>,..   extend([..])         (`e:` alone: extend([]))
       | i:<int>:<item>       insert(int, item)
       | r:<item>             remove(item)
       | p:<int> | p          pop(int) | pop()
       | v                    reverse()
       | c                    clear()
       | g:<int>              args[int]
       | s:<lo>:<hi>          args[lo:hi], a bound is an int or `_` (left out)
       | t                    str(args)
```

Answer: for every operation `<out> @ <state>`, joined by `;`, where

```
out   ::= none | item <sexpr> | slice <state> | string <str> | TypeError | ValueError | IndexError
state ::= lst=<str>,<str>,..|all=<str>,<str>,..      (`str()` of every entry)
```

`<sexpr>` is the tree notation of `Driver.lean` (`showExpr`), `(t -1 <str>)` for a bare
string.
-/
namespace TexSoup
namespace ArgsDrv

def encStr (s : Str) : String :=
  if s.isEmpty then "-" else ".".intercalate (s.map toString)

def decStr (w : String) : Option Str :=
  if w == "-" then some []
  else (w.splitOn ".").mapM (fun x => x.toNat?)

def gk : GKind → String
  | .bracket => "bracket"
  | .brace => "brace"
def mk : MKind → String
  | .ddollar => "ddollar"
  | .dollar => "dollar"
  | .displaymath => "displaymath"
  | .math => "math"

mutual
partial def showExpr : Expr → String
  | .text s p => s!"(t {p} {encStr s})"
  | .cmd n a b p => s!"(c {encStr n} {p} [{showExprs a}] [{showExprs b}])"
  | .nenv n a b p => s!"(e {encStr n} {p} [{showExprs a}] [{showExprs b}])"
  | .math k b p => s!"(m {mk k} {p} [{showExprs b}])"
  | .group k b p => s!"(g {gk k} {p} [{showExprs b}])"
partial def showExprs (es : List Expr) : String := " ".intercalate (es.map showExpr)
end

def showItem : ArgItem → String
  | .grp e => showExpr e
  | .ws s => s!"(t -1 {encStr s})"

def showState (st : ArgsSt) : String :=
  "lst=" ++ ",".intercalate (st.lst.map fun e => encStr (ser e)) ++
  "|all=" ++ ",".intercalate (st.all.map fun it => encStr it.txt)

def showOut : ArgsOut → String
  | .none => "none"
  | .item it => "item " ++ showItem it
  | .sliceResult st => "slice " ++ showState st
  | .string s => "string " ++ encStr s
  | .typeError => "TypeError"
  | .valueError => "ValueError"
  | .indexError => "IndexError"

/-- An item from its `:`-separated pieces. -/
def decItem : List String → Option ArgIn
  | [w] => (decStr w).map .str
  | ["g", w] => (decStr w).bind fun s => (parseGroup s).map .grp
  | ["c", w] => (decStr w).map fun s => .grp (.cmd s [] [] (-1))
  | ["n", w] => (decStr w).map fun s => .grp (.nenv s [] [] (-1))
  | ["x", w] => (decStr w).map fun s => .grp (.text s (-1))
  | [tag, w] =>
    if tag.startsWith "g@" then do
      let p ← (tag.drop 2).toString.toInt?
      let s ← decStr w
      match parseGroup s with
      | some (.group k b _) => pure (.grp (.group k b p))
      | _ => none
    else none
  | _ => none

def decBound (w : String) : Option (Option Int) :=
  if w == "_" then some none else w.toInt?.map some

def decOp (w : String) : Option ArgsOp :=
  match w.splitOn ":" with
  | "a" :: it => (decItem it).map .append
  | ["e", ""] => some (.extend [])
  | "e" :: rest =>
    (((":".intercalate rest).splitOn ",").mapM fun x => decItem (x.splitOn ":")).map .extend
  | "i" :: i :: it => do
    let i ← i.toInt?
    let it ← decItem it
    pure (.insert i it)
  | "r" :: it => (decItem it).map .remove
  | ["p"] => some (.pop (-1))
  | ["p", i] => i.toInt?.map .pop
  | ["v"] => some .reverse
  | ["c"] => some .clear
  | ["g", i] => i.toInt?.map .getItem
  | ["s", lo, hi] => do
    let lo ← decBound lo
    let hi ← decBound hi
    pure (.slice lo hi)
  | ["t"] => some .str
  | _ => none

def runShow (st : ArgsSt) : List ArgsOp → List String
  | [] => []
  | op :: ops =>
    let r := Args.step st op
    (showOut r.2 ++ " @ " ++ showState r.1) :: runShow r.1 ops

end ArgsDrv

def argsHandle (words : List String) : String :=
  match words with
  | [] => ""
  | [w] =>
    match (w.splitOn ";").mapM ArgsDrv.decOp with
    | some ops => ";".intercalate (ArgsDrv.runShow .empty ops)
    | none => "bad-arg"
  | _ => "bad-op"

end TexSoup
