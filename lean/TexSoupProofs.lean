-- proof library root
import TexSoupProofs.TokLemmas
import TexSoupProofs.Properties.C19
import TexSoupProofs.Properties.TokFacts
import TexSoupProofs.Reader.Basic
import TexSoupProofs.Reader.Tolerant
import TexSoupProofs.BufSpec
import TexSoupProofs.BufLemmas
import TexSoupProofs.Properties.C20
