import TexSoupModel.Basic
import TexSoupModel.Tok
import TexSoupModel.Tree
import TexSoupModel.Read
import TexSoupModel.Nav
import TexSoupModel.Path
import TexSoupModel.Edit
