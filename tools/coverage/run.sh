#!/bin/sh
# Line/branch coverage of /repo/TexSoup under the twenty quick checks (a measurement of how much of the modelled
# code the correspondence and oracle inputs exercise; not part of any registered check).
# usage: tools/coverage/run.sh <scratch-dir>      (about 40 minutes; needs `coverage` in /venv)
D=${1:-/tmp/texsoup_cov}
mkdir -p "$D"
cat > "$D/.coveragerc" <<EOT
[run]
branch = True
parallel = True
concurrency = multiprocessing
source = ${REPO:-/repo}/TexSoup
data_file = $D/.coverage
sigterm = True
EOT
cd "$(dirname "$0")/../.." || exit 2
for p in C01 C02 C03 C04 C05 C06 C07 C08 C09 C10 C11 C12 C13 C14 C15 C16 C17 C18 C19 C20; do
  VERIF_OUT_DIR="$D/out" /venv/bin/python -m coverage run --rcfile="$D/.coveragerc" harness/framework.py $p --tier quick > "$D/$p.log" 2>&1
  echo "$p exit $?"
done
cd "$D" && /venv/bin/python -m coverage combine --rcfile=.coveragerc >/dev/null 2>&1
/venv/bin/python -m coverage report --rcfile=.coveragerc -m | tee "$D/report.txt"
