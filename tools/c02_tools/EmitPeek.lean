import TexSoupModel.Grammar
open TexSoup TexSoup.Gram

def S (s : String) : Str := s.toList.map Char.toNat
def tk (s : String) (c : TC) : Tok := ⟨S s, 0, c⟩

abbrev G := StateM Nat
def rnd (n : Nat) : G Nat := do
  let s ← get
  let s' := (s * 6364136223846793005 + 1442695040888963407) % (2^64)
  set s'
  pure ((s' >>> 33) % n)
def pick {α} [Inhabited α] (l : List α) : G α := do let i ← rnd l.length; pure (l[i]!)

def leafToks : List Tok := [tk "a" .Text, tk " " .MergedSpacer, tk "[" .BracketBegin, tk "]" .BracketEnd,
  tk "%c" .Comment, tk " a " .Text, tk "&" .Text, tk "\\%" .EscapedComment, tk "\\\\" .LineBreak, tk "}" .GroupEnd, tk "\\]" .DisplayMathGroupEnd, tk "b" .Text]
def cmdNames : List String := ["foo", "foo", "bar", "textbf", "in", "section", "newcommand", "end", "begin", "label", "def"]
def envNames : List String := ["a", "equation", "itemize", " a "]
def vNames : List String := ["verbatim"]
def esc : Tok := tk "\\" .Escape
def optSp : G (Option Tok) := do if (← rnd 4) == 0 then pure (some (tk " " .MergedSpacer)) else pure none

mutual
partial def genElem (d : Nat) : G Elem := do
  let c ← rnd (if d == 0 then 2 else 12)
  match c with
  | 0 | 1 | 2 => pure (.leaf (← pick leafToks))
  | 3 => pure (.group (tk "{" .GroupBegin) (← genSeq (d-1)) (tk "}" .GroupEnd))
  | 4 =>
    let k ← pick [MKind.dollar, .ddollar, .math, .displaymath]
    let (o, cl) := match k with
      | .dollar => (tk "$" .MathSwitch, tk "$" .MathSwitch)
      | .ddollar => (tk "$$" .DisplayMathSwitch, tk "$$" .DisplayMathSwitch)
      | .math => (tk "\\(" .MathGroupBegin, tk "\\)" .MathGroupEnd)
      | .displaymath => (tk "\\[" .DisplayMathGroupBegin, tk "\\]" .DisplayMathGroupEnd)
    pure (.math k o (← genSeq (d-1)) cl)
  | 5 | 6 | 7 =>
    let n ← pick cmdNames
    pure (.cmd esc (tk n .CommandName) (← genArgs (d-1) .bracket 2) (← genArgs (d-1) .brace 3) (← genArgs (d-1) .bracket 1) (← genArgs (d-1) .brace 1))
  | 8 =>
    pure (.item esc (tk "item" .CommandName) (← genArgs (d-1) .bracket 2) (← genArgs (d-1) .brace 1) [] [] (← genSeq (d-1)))
  | 9 | 10 =>
    let n ← pick envNames
    let n2 ← if (← rnd 5) == 0 then pick envNames else pure (n.replace " " "")
    pure (.env esc (tk "begin" .CommandName) ⟨← optSp, tk "{" .GroupBegin, tk n .Text, tk "}" .GroupEnd⟩
      (← genArgs (d-1) .brace 1) (← genArgs (d-1) .bracket 1) (← genArgs (d-1) .brace 1) (← genSeq (d-1))
      esc (tk "end" .CommandName) ⟨← optSp, tk "{" .GroupBegin, tk n2 .Text, tk "}" .GroupEnd⟩)
  | _ =>
    let n ← pick vNames
    let body ← (List.range (← rnd 4)).mapM fun _ => pick (leafToks ++ [esc, tk "end" .CommandName, tk "{" .GroupBegin, tk "$" .MathSwitch])
    pure (.venv esc (tk "begin" .CommandName) ⟨← optSp, tk "{" .GroupBegin, tk n .Text, tk "}" .GroupEnd⟩
      [] [] [] body [esc, tk "end" .CommandName, tk "{" .GroupBegin, tk n .Text, tk "}" .GroupEnd])
partial def genSeq (d : Nat) : G (List Elem) := do
  let n ← rnd 4
  (List.range n).mapM fun _ => genElem d
partial def genArgs (d : Nat) (k : GKind) (mx : Nat) : G (List Arg) := do
  let n ← rnd (mx + 1)
  let n := if (← rnd 2) == 0 then 0 else n
  (List.range n).mapM fun _ => do
    let (o, c) := match k with
      | .bracket => (tk "[" .BracketBegin, tk "]" .BracketEnd)
      | .brace => (tk "{" .GroupBegin, tk "}" .GroupEnd)
    pure (Arg.mk (← optSp) o (← genSeq d) c)
end

def showS (s : Str) : String := String.ofList (s.map Char.ofNat)


mutual
partial def cnt : Elem → Array Nat → Array Nat
  | .leaf _, a => a.modify 0 (·+1)
  | .group _ b _, a => cntS b (a.modify 1 (·+1))
  | .math _ _ b _, a => cntS b (a.modify 2 (·+1))
  | .cmd _ _ a1 a2 a3 a4, a => cntA a1 (cntA a2 (cntA a3 (cntA a4 (a.modify 3 (·+1)))))
  | .item _ _ a1 a2 a3 a4 b, a => cntS b (cntA a1 (cntA a2 (cntA a3 (cntA a4 (a.modify 4 (·+1))))))
  | .env _ _ _ a2 a3 a4 b _ _ _, a => cntS b ((cntA a2 (cntA a3 (cntA a4 (a.modify 5 (·+1))))))
  | .venv _ _ _ a2 a3 a4 _ _, a => ((cntA a2 (cntA a3 (cntA a4 (a.modify 6 (·+1))))))
partial def cntS : List Elem → Array Nat → Array Nat
  | [], a => a
  | e :: es, a => cntS es (cnt e a)
partial def cntA : List Arg → Array Nat → Array Nat
  | [], a => a
  | .mk sp _ b _ :: as, a => cntA as (cntS b ((a.modify 7 (·+1)).modify 8 (· + (if sp.isSome then 1 else 0))))
end


abbrev R := StateM Nat
def rl (t : Tok) : R Tok := do
  let p ← get
  set (p + t.text.length)
  pure {t with pos := p}
def rlO : Option Tok → R (Option Tok)
  | none => pure none
  | some t => do pure (some (← rl t))
def rlN (n : NameArg) : R NameArg := do
  let sp ← rlO n.sp; let o ← rl n.o; let nt ← rl n.nt; let c ← rl n.c
  pure ⟨sp, o, nt, c⟩
mutual
partial def rlE : Elem → R Elem
  | .leaf t => do pure (.leaf (← rl t))
  | .group o b c => do let o ← rl o; let b ← rlS b; let c ← rl c; pure (.group o b c)
  | .math k o b c => do let o ← rl o; let b ← rlS b; let c ← rl c; pure (.math k o b c)
  | .cmd e n a1 a2 a3 a4 => do
      let e ← rl e; let n ← rl n; let a1 ← rlA a1; let a2 ← rlA a2; let a3 ← rlA a3; let a4 ← rlA a4
      pure (.cmd e n a1 a2 a3 a4)
  | .item e n a1 a2 a3 a4 b => do
      let e ← rl e; let n ← rl n; let a1 ← rlA a1; let a2 ← rlA a2; let a3 ← rlA a3; let a4 ← rlA a4
      let b ← rlS b
      pure (.item e n a1 a2 a3 a4 b)
  | .env e n nm a2 a3 a4 b e2 n2 nm2 => do
      let e ← rl e; let n ← rl n; let nm ← rlN nm; let a2 ← rlA a2; let a3 ← rlA a3; let a4 ← rlA a4
      let b ← rlS b; let e2 ← rl e2; let n2 ← rl n2; let nm2 ← rlN nm2
      pure (.env e n nm a2 a3 a4 b e2 n2 nm2)
  | .venv e n nm a2 a3 a4 vb e5 => do
      let e ← rl e; let n ← rl n; let nm ← rlN nm; let a2 ← rlA a2; let a3 ← rlA a3; let a4 ← rlA a4
      let vb ← vb.mapM rl; let e5 ← e5.mapM rl
      pure (.venv e n nm a2 a3 a4 vb e5)
partial def rlS : List Elem → R (List Elem)
  | [] => pure []
  | e :: es => do let e ← rlE e; let es ← rlS es; pure (e :: es)
partial def rlA : List Arg → R (List Arg)
  | [] => pure []
  | .mk sp o b c :: as => do
      let sp ← rlO sp; let o ← rl o; let b ← rlS b; let c ← rl c; let as ← rlA as
      pure (.mk sp o b c :: as)
end

def encStr (s : Str) : String :=
  if s.isEmpty then "-" else ".".intercalate (s.map toString)
def gk : GKind → String
  | .bracket => "bracket"
  | .brace => "brace"
def mk : MKind → String
  | .ddollar => "ddollar"
  | .dollar => "dollar"
  | .displaymath => "displaymath"
  | .math => "math"
mutual
partial def showExpr : Expr → String
  | .text s p => s!"(t {p} {encStr s})"
  | .cmd n a b p => s!"(c {encStr n} {p} [{showExprs a}] [{showExprs b}])"
  | .nenv n a b p => s!"(e {encStr n} {p} [{showExprs a}] [{showExprs b}])"
  | .math k b p => s!"(m {mk k} {p} [{showExprs b}])"
  | .group k b p => s!"(g {gk k} {p} [{showExprs b}])"
partial def showExprs (es : List Expr) : String := " ".intercalate (es.map showExpr)
end

def genPeek : G (List Elem) := do
  let n ← pick ["a", "equation"]
  let c ← pick ["in", "noindent", "foo", "newcommand", "section"]
  let sp ← optSp
  let body ← genSeq 2
  let pre ← genSeq 1
  let post ← genSeq 1
  let mid : List Elem := match sp with
    | some s => [.leaf s]
    | none => []
  pure [.env esc (tk "begin" .CommandName) ⟨none, tk "{" .GroupBegin, tk n .Text, tk "}" .GroupEnd⟩ [] [] []
    (pre ++ [.cmd esc (tk c .CommandName) [] [] [] []] ++ mid ++ [.group (tk "{" .GroupBegin) body (tk "}" .GroupEnd)] ++ post)
    esc (tk "end" .CommandName) ⟨none, tk "{" .GroupBegin, tk n .Text, tk "}" .GroupEnd⟩]


def main (args : List String) : IO Unit := do
  let skip := Tables.skipEnvNames
  let mut seed := args[0]!.toNat!
  let n := args[1]!.toNat!
  let mut out := 0
  for _ in [0:n] do
    let (d0, s') := genPeek.run seed
    seed := s'
    let (d, _) := (rlS d0).run 0
    if d.length > 0 && WFD skip d then
      let src := flat (toksD d)
      match tokenize src with
      | some ts =>
        if ts == toksD d then
          out := out + 1
          IO.println s!"{encStr src}\t[{showExprs (treeD d)}]"
      | none => pure ()
  IO.eprintln s!"emitted {out}"
