import TexSoupModel.Grammar
open TexSoup TexSoup.Gram

def S (s : String) : Str := s.toList.map Char.toNat
def tk (s : String) (c : TC) : Tok := ⟨S s, 0, c⟩

abbrev G := StateM Nat
def rnd (n : Nat) : G Nat := do
  let s ← get
  let s' := (s * 6364136223846793005 + 1442695040888963407) % (2^64)
  set s'
  pure ((s' >>> 33) % n)
def pick {α} [Inhabited α] (l : List α) : G α := do let i ← rnd l.length; pure (l[i]!)

def leafToks : List Tok := [tk "a" .Text, tk " " .MergedSpacer, tk "[" .BracketBegin, tk "]" .BracketEnd,
  tk "%c" .Comment, tk "\\%" .EscapedComment, tk "\\\\" .LineBreak, tk "}" .GroupEnd, tk "\\]" .DisplayMathGroupEnd, tk "b" .Text]
def cmdNames : List String := ["foo", "foo", "bar", "textbf", "in", "section", "newcommand", "end", "begin", "label", "def"]
def envNames : List String := ["a", "equation", "itemize", " a "]
def vNames : List String := ["verbatim"]
def esc : Tok := tk "\\" .Escape
def optSp : G (Option Tok) := do if (← rnd 4) == 0 then pure (some (tk " " .MergedSpacer)) else pure none

mutual
partial def genElem (d : Nat) : G Elem := do
  let c ← rnd (if d == 0 then 2 else 12)
  match c with
  | 0 | 1 | 2 => pure (.leaf (← pick leafToks))
  | 3 => pure (.group (tk "{" .GroupBegin) (← genSeq (d-1)) (tk "}" .GroupEnd))
  | 4 =>
    let k ← pick [MKind.dollar, .ddollar, .math, .displaymath]
    let (o, cl) := match k with
      | .dollar => (tk "$" .MathSwitch, tk "$" .MathSwitch)
      | .ddollar => (tk "$$" .DisplayMathSwitch, tk "$$" .DisplayMathSwitch)
      | .math => (tk "\\(" .MathGroupBegin, tk "\\)" .MathGroupEnd)
      | .displaymath => (tk "\\[" .DisplayMathGroupBegin, tk "\\]" .DisplayMathGroupEnd)
    pure (.math k o (← genSeq (d-1)) cl)
  | 5 | 6 | 7 =>
    let n ← pick cmdNames
    pure (.cmd esc (tk n .CommandName) (← genArgs (d-1) .bracket 2) (← genArgs (d-1) .brace 3) (← genArgs (d-1) .bracket 1) (← genArgs (d-1) .brace 1))
  | 8 =>
    pure (.item esc (tk "item" .CommandName) (← genArgs (d-1) .bracket 2) (← genArgs (d-1) .brace 1) [] [] (← genSeq (d-1)))
  | 9 | 10 =>
    let n ← pick envNames
    let n2 ← if (← rnd 5) == 0 then pick envNames else pure (n.replace " " "")
    pure (.env esc (tk "begin" .CommandName) ⟨← optSp, tk "{" .GroupBegin, tk n .Text, tk "}" .GroupEnd⟩
      (← genArgs (d-1) .brace 1) (← genArgs (d-1) .bracket 1) (← genArgs (d-1) .brace 1) (← genSeq (d-1))
      esc (tk "end" .CommandName) ⟨← optSp, tk "{" .GroupBegin, tk n2 .Text, tk "}" .GroupEnd⟩)
  | _ =>
    let n ← pick vNames
    let body ← (List.range (← rnd 4)).mapM fun _ => pick (leafToks ++ [esc, tk "end" .CommandName, tk "{" .GroupBegin, tk "$" .MathSwitch])
    pure (.venv esc (tk "begin" .CommandName) ⟨← optSp, tk "{" .GroupBegin, tk n .Text, tk "}" .GroupEnd⟩
      [] [] [] body [esc, tk "end" .CommandName, tk "{" .GroupBegin, tk n .Text, tk "}" .GroupEnd])
partial def genSeq (d : Nat) : G (List Elem) := do
  let n ← rnd 4
  (List.range n).mapM fun _ => genElem d
partial def genArgs (d : Nat) (k : GKind) (mx : Nat) : G (List Arg) := do
  let n ← rnd (mx + 1)
  let n := if (← rnd 2) == 0 then 0 else n
  (List.range n).mapM fun _ => do
    let (o, c) := match k with
      | .bracket => (tk "[" .BracketBegin, tk "]" .BracketEnd)
      | .brace => (tk "{" .GroupBegin, tk "}" .GroupEnd)
    pure (Arg.mk (← optSp) o (← genSeq d) c)
end

def showS (s : Str) : String := String.ofList (s.map Char.ofNat)


mutual
partial def cnt : Elem → Array Nat → Array Nat
  | .leaf _, a => a.modify 0 (·+1)
  | .group _ b _, a => cntS b (a.modify 1 (·+1))
  | .math _ _ b _, a => cntS b (a.modify 2 (·+1))
  | .cmd _ _ a1 a2 a3 a4, a => cntA a1 (cntA a2 (cntA a3 (cntA a4 (a.modify 3 (·+1)))))
  | .item _ _ a1 a2 a3 a4 b, a => cntS b (cntA a1 (cntA a2 (cntA a3 (cntA a4 (a.modify 4 (·+1))))))
  | .env _ _ _ a2 a3 a4 b _ _ _, a => cntS b ((cntA a2 (cntA a3 (cntA a4 (a.modify 5 (·+1))))))
  | .venv _ _ _ a2 a3 a4 _ _, a => ((cntA a2 (cntA a3 (cntA a4 (a.modify 6 (·+1))))))
partial def cntS : List Elem → Array Nat → Array Nat
  | [], a => a
  | e :: es, a => cntS es (cnt e a)
partial def cntA : List Arg → Array Nat → Array Nat
  | [], a => a
  | .mk sp _ b _ :: as, a => cntA as (cntS b ((a.modify 7 (·+1)).modify 8 (· + (if sp.isSome then 1 else 0))))
end


def canonRun (a2 a3 a4 : List Arg) : Bool :=
  (a2.isEmpty → a3.isEmpty && a4.isEmpty) && (a3.isEmpty → a4.isEmpty) && tight a3 && tight a4
mutual
partial def canon : Elem → Bool
  | .leaf _ => true
  | .group _ b _ => canonS b
  | .math _ _ b _ => canonS b
  | .cmd _ n a1 a2 a3 a4 =>
      let sg := cmdSig (-1) (-1) n.text
      (if sg.1 < 0 then canonRun a2 a3 a4 else (a3.isEmpty && a4.isEmpty && decide ((a2.length : Int) = sg.1) && decide ((a1.length : Int) ≤ sg.2)))
      && canonA a1 && canonA a2 && canonA a3 && canonA a4
  | .item _ _ a1 a2 a3 a4 b => canonRun a2 a3 a4 && canonA a1 && canonA a2 && canonA a3 && canonA a4 && canonS b
  | .env _ _ _ a2 a3 a4 b _ _ _ => canonRun [default] a3 a4 && canonA a2 && canonA a3 && canonA a4 && canonS b
  | .venv _ _ _ a2 a3 a4 _ _ => canonRun [default] a3 a4 && canonA a2 && canonA a3 && canonA a4
partial def canonS : List Elem → Bool
  | [] => true
  | e :: es => canon e && canonS es
partial def canonA : List Arg → Bool
  | [] => true
  | .mk _ _ b _ :: as => canonS b && canonA as
end


def genPeek : G (List Elem) := do
  let n ← pick ["a", "equation"]
  let c ← pick ["in", "noindent", "foo", "newcommand", "section"]
  let sp ← optSp
  let body ← genSeq 2
  let pre ← genSeq 1
  let post ← genSeq 1
  let mid : List Elem := match sp with
    | some s => [.leaf s]
    | none => []
  pure [.env esc (tk "begin" .CommandName) ⟨none, tk "{" .GroupBegin, tk n .Text, tk "}" .GroupEnd⟩ [] [] []
    (pre ++ [.cmd esc (tk c .CommandName) [] [] [] []] ++ mid ++ [.group (tk "{" .GroupBegin) body (tk "}" .GroupEnd)] ++ post)
    esc (tk "end" .CommandName) ⟨none, tk "{" .GroupBegin, tk n .Text, tk "}" .GroupEnd⟩]

def main : IO Unit := do
  let skip := Tables.skipEnvNames
  let mut seed := 99
  let mut over := 0
  let mut bad := 0
  let mut nwf := 0
  let mut nwfItem := 0
  for i in [0:60000] do
    let (d, s') := genPeek.run seed
    seed := s'
    let wf := WFD skip d
    let r := readTex (parseFuel (toksD d)) skip false (toksD d)
    let okk := match r with
      | .ok es => toString (repr es) == toString (repr (treeD d))
      | .error _ => false
    if wf then
      nwf := nwf + 1
      if ((showS (flat (toksD d))).splitOn "item").length > 1 then nwfItem := nwfItem + 1
    if wf && !okk then
      bad := bad + 1
      if bad < 10 then IO.println s!"BAD {i}: {showS (flat (toksD d))}"
    if !wf && canonS d && okk then
      over := over + 1
      if over < 30 then IO.println s!"OVER {i}: {showS (flat (toksD d))}"
  IO.println s!"wf={nwf} wfWithItem={nwfItem} bad={bad} over={over}"
