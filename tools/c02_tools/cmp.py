import sys
sys.path.insert(0,'/verif/harness')
import common
from collections import Counter
bad=0; n=0; kinds=Counter()
seen=set()
for line in open(sys.argv[1]):
    src_enc, exp = line.rstrip('\n').split('\t')
    if src_enc in seen: continue
    seen.add(src_enc)
    src = common.dec(src_enc)
    for tol in (0,1):
        res, soup, exc = common.impl_parse(src, tol=tol)
        n+=1
        if not res.startswith('TREE '):
            got = res
        else:
            got = res[5:res.index(' SER ')]
        if got != exp:
            bad+=1
            if bad<10:
                print('MISMATCH tol',tol, repr(src)); print('  exp',exp); print('  got',got)
    for k in ('(e ','(c 105.116.101.109 ','(m ','(g bracket','(g brace','118.101.114.98.97.116.105.109'):
        if k in exp: kinds[k]+=1
print('checked',n,'distinct',len(seen),'bad',bad, dict(kinds))
